#!/bin/sh
# usage: mc/seedcollect.sh <round> <PID>   copies seed_{A,B}.patch.diff + demo_{A,B}.py from /tmp/wt<round>_cNN and tries them
r="$1"; pid="$2"; n=$(echo "$pid" | cut -c2-)
for x in A B; do
  d=/verif/seeded/${pid}_r${r}${x}; mkdir -p $d
  [ -f $d/patch.diff ] || cp /tmp/wt${r}_c${n}/seed_${x}.patch.diff $d/patch.diff
  [ -f $d/demo.py ] || cp /tmp/wt${r}_c${n}/demo_${x}.py $d/demo.py
  echo "== ${pid}_r${r}${x}"; sh /verif/mc/seedtry.sh ${pid}_r${r}${x}
done
