"""Core of the S-Coda model-checking harness.

Two engines, both driving the *real* implementation:

* E1  `sweep`  - bounded-exhaustive enumeration.  A property module cuts its finite case
                 space into disjoint *units* (cheap descriptors, simplest first); every unit is
                 expanded and checked completely inside one worker process.  Nothing is sampled.
* E2  `bfs`    - explicit-state breadth-first exploration of operation histories on live objects.
                 States are stored as histories and rebuilt by replay on fresh objects; they are
                 deduplicated by a canonical key that is never coarser than what later behaviour
                 can depend on.

Shared services: binding to the tree under test, evidence files, known-findings matching,
replay artefacts, reproducibility check of every reported violation.
"""
from __future__ import annotations

import collections
import hashlib
import importlib
import json
import multiprocessing as mp
import os
import pickle
import subprocess
import sys
import time
import traceback

VERIF = os.path.dirname(os.path.dirname(os.path.abspath(__file__)))
# evidence/ and replays/ live in /verif; the seeded-change campaign redirects them so that runs against a
# deliberately broken scratch tree never overwrite the evidence of the real tree
OUT = os.environ.get("VERIF_OUT") or VERIF
ROOT = os.path.realpath(os.environ.get("SCODA_VERIF_ROOT", "/repo"))
NPROC = int(os.environ.get("VERIF_JOBS", "0")) or min(16, os.cpu_count() or 1)
MAX_REPORT = 5  # VIOLATION lines printed per run (shortest / simplest first)


class HarnessError(Exception):
    """Something is wrong with the harness or its environment (exit 2, never an alarm)."""


# --------------------------------------------------------------------------------------------
# binding to the tree under test

def boot():
    """Import scoda from ROOT (the working tree under test) and nothing else."""
    if ROOT not in sys.path[:1]:
        sys.path.insert(0, ROOT)
    sys.dont_write_bytecode = True
    import logging
    import scoda.sequences.sequence  # noqa: F401  (pulls in most of the library)
    import scoda.elements.bar  # noqa: F401
    import scoda.elements.track  # noqa: F401
    import scoda.elements.composition  # noqa: F401
    import scoda.tokenisation.notelike_tokenisation  # noqa: F401
    logging.getLogger("scoda").setLevel(logging.ERROR)
    bad = []
    for name, mod in list(sys.modules.items()):
        if name == "scoda" or name.startswith("scoda."):
            f = getattr(mod, "__file__", None)
            if f and not os.path.realpath(f).startswith(ROOT + os.sep):
                bad.append((name, f))
    if bad:
        raise HarnessError(f"scoda modules loaded from outside {ROOT}: {bad[:3]}")


def clone(obj):
    """Private copy of a tuple of live objects that preserves aliasing between them."""
    return pickle.loads(pickle.dumps(obj, -1))


def jkey(obj) -> str:
    return json.dumps(obj, sort_keys=True, default=str, separators=(",", ":"))


def digest(obj) -> str:
    return hashlib.sha1(jkey(obj).encode()).hexdigest()[:16]


# --------------------------------------------------------------------------------------------
# results

class Viol:
    """One violation: `sig` is the oracle clause that failed, `case` rebuilds the execution,
    `tags` are generator-computed facts used for known-finding matching."""
    __slots__ = ("sig", "case", "detail", "tags", "order")

    def __init__(self, sig, case, detail="", tags=None, order=()):
        self.sig, self.case, self.detail, self.tags, self.order = sig, case, detail, tags or {}, order

    def as_dict(self):
        return {"sig": self.sig, "case": self.case, "detail": self.detail, "tags": self.tags}


class Acc:
    """Per-unit accumulator filled by a property module inside a worker."""

    def __init__(self, unit_index=0, keep=3):
        self.unit_index = unit_index
        self.n = 0                 # cases executed
        self.nontrivial = 0        # distinct non-trivial cases (units are disjoint by construction)
        self.transitions = 0       # implementation steps executed and checked
        self.validated = 0         # reference-model predictions compared with the implementation
        self.flags = collections.Counter()   # coverage facts (vacuity guards)
        self.viols = []            # Viol (capped per signature)
        self.viol_count = collections.Counter()
        self.samples = []
        self.keep = keep
        self.outcomes = set()      # distinct observed outcome classes (small strings)
        self._seen = set()

    def case(self, key=None, nontrivial=False, transitions=1, validated=1):
        """Record one executed case; `key` (hashable) guards distinctness inside the unit."""
        self.n += 1
        self.transitions += transitions
        self.validated += validated
        if nontrivial:
            if key is None:
                self.nontrivial += 1
            else:
                h = hash(key)
                if h not in self._seen:
                    self._seen.add(h)
                    self.nontrivial += 1

    def flag(self, name, k=1):
        self.flags[name] += k

    def sample(self, case):
        if len(self.samples) < self.keep:
            self.samples.append(case)

    def violation(self, sig, case, detail="", tags=None):
        self.viol_count[sig] += 1
        if sum(1 for v in self.viols if v.sig == sig) < 4:
            self.viols.append(Viol(sig, case, str(detail)[:2000], tags, (self.unit_index, self.n)))

    def pack(self):
        return dict(unit=self.unit_index, n=self.n, nontrivial=self.nontrivial, transitions=self.transitions,
                    validated=self.validated, flags=dict(self.flags),
                    viols=[(v.sig, v.case, v.detail, v.tags, v.order) for v in self.viols],
                    viol_count=dict(self.viol_count), samples=self.samples, outcomes=sorted(self.outcomes)[:50])


class Total:
    def __init__(self):
        self.n = self.nontrivial = self.transitions = self.validated = 0
        self.states = 0
        self.flags = collections.Counter()
        self.viols = []
        self.viol_count = collections.Counter()
        self.samples = []
        self.outcomes = set()
        self.units = 0
        self.extra = {}
        self.caps_hit = []

    def add(self, p):
        self.units += 1
        self.n += p["n"]
        self.nontrivial += p["nontrivial"]
        self.transitions += p["transitions"]
        self.validated += p["validated"]
        self.flags.update(p["flags"])
        self.viol_count.update(p["viol_count"])
        for sig, case, detail, tags, order in p["viols"]:
            self.viols.append(Viol(sig, case, detail, tags, tuple(order)))
        self.samples.extend(p["samples"])
        self.outcomes.update(p["outcomes"])


# --------------------------------------------------------------------------------------------
# E1: bounded exhaustive sweep

_MOD = None
_CTX = None


def _run_unit(args):
    idx, unit = args
    acc = Acc(idx)
    try:
        _MOD.run_unit(unit, acc, _CTX)
    except HarnessError:
        raise
    except Exception:
        raise HarnessError(f"unit {idx} {unit!r} crashed in the harness:\n{traceback.format_exc()}")
    return acc.pack()


def pool_map(fn, items, chunksize=1, fresh=False):
    """Ordered-independent parallel map over forked workers (library imported before the fork).
    fresh=True: every item runs in a newly forked child of the pristine parent (module-level state of the library,
    caches and lazily built tables start from the import state for every unit)."""
    items = list(items)
    if (NPROC <= 1 or len(items) <= 1) and not fresh:
        for it in items:
            yield fn(it)
        return
    ctx = mp.get_context("fork")
    with ctx.Pool(max(1, min(NPROC, len(items))), maxtasksperchild=1 if fresh else None) as pool:
        for r in pool.imap_unordered(fn, items, chunksize):
            yield r


def sweep(mod, ctx) -> Total:
    global _MOD, _CTX
    _MOD, _CTX = mod, ctx
    units = list(mod.units(ctx))
    tot = Total()
    tot.extra["units"] = len(units)
    # largest units first would balance better, but simplest-first order is kept in `order`
    for p in pool_map(_run_unit, list(enumerate(units)), fresh=bool(getattr(mod, "FRESH_WORKERS", False))):
        tot.add(p)
    tot.states = tot.n
    return tot


# --------------------------------------------------------------------------------------------
# E2: explicit-state BFS over histories

def _expand(args):
    """Worker: rebuild the state of `hist` by replay, apply every enabled op, return successors."""
    seed_i, hist = args
    mod, ctx = _MOD, _CTX
    out = []
    acc = Acc(len(hist))      # violations are ordered by history length: shortest counter-example first
    try:
        state = mod.build(seed_i, hist, ctx)
    except Exception:
        raise HarnessError(f"cannot rebuild explored state {seed_i} {hist}:\n{traceback.format_exc()}")
    for op in mod.enabled(state, seed_i, hist, ctx):
        st2 = clone(state)
        res = mod.step(st2, op, seed_i, hist, acc, ctx)     # applies op, checks oracles, records violations
        if res is None:
            continue
        key, info = res
        out.append((key, op, info))
    return seed_i, hist, out, acc.pack()


def bfs(mod, ctx) -> Total:
    """Level-synchronous BFS.  mod supplies: seeds(ctx) -> n, build(seed_i, hist, ctx) -> state,
    enabled(...), step(state, op, ...) -> (canonical_key, info) | None, key_of(state)."""
    global _MOD, _CTX
    _MOD, _CTX = mod, ctx
    tot = Total()
    seen = {}
    frontier = []
    nseeds = mod.seeds(ctx)
    for i in range(nseeds):
        st = mod.build(i, [], ctx)
        k = mod.key_of(st, ctx)
        if k not in seen:
            seen[k] = (i, [])
            frontier.append((i, []))
    depth_done = 0
    edges = collections.Counter()
    max_depth = ctx["depth"]
    cap_states = ctx.get("cap_states")
    for depth in range(1, max_depth + 1):
        nxt = []
        for seed_i, hist, out, p in pool_map(_expand, frontier, chunksize=4):
            tot.add(p)
            for key, op, info in sorted(out, key=lambda x: jkey(x[1])):
                if info is not None:
                    edges[jkey(info)] += 1
                if key is not None and key not in seen:
                    seen[key] = (seed_i, hist + [op])
                    nxt.append((seed_i, hist + [op]))
        nxt.sort(key=lambda x: (len(x[1]), x[0], jkey(x[1])))
        frontier = nxt
        depth_done = depth
        if not frontier:
            tot.extra["fixed_point_at_depth"] = depth
            break
        if cap_states and len(seen) > cap_states and depth < max_depth:
            tot.caps_hit.append(f"state cap {cap_states} exceeded after depth {depth}")
            break
    tot.states = len(seen)
    tot.extra["depth_completed"] = depth_done
    tot.extra["frontier_left"] = len(frontier)
    tot.extra["abstract_edges"] = {k: v for k, v in sorted(edges.items())} if len(edges) <= 400 else len(edges)
    tot._edges = edges
    return tot


# --------------------------------------------------------------------------------------------
# known findings

def load_findings(pid):
    path = os.path.join(VERIF, "known_findings.jsonl")
    out = []
    if os.path.exists(path):
        for line in open(path):
            line = line.strip()
            if not line or line.startswith("#"):
                continue
            rec = json.loads(line)
            if rec.get("property") == pid:
                out.append(rec)
    return out


def finding_matches(rec, v: Viol) -> bool:
    if rec.get("status") != "open":
        return False
    if rec.get("signature") not in (None, v.sig):
        return False
    for k, want in (rec.get("match") or {}).items():
        got = v.tags.get(k)
        if isinstance(want, list):
            if got not in want:
                return False
        elif got != want:
            return False
    return True


# --------------------------------------------------------------------------------------------
# evidence

def validate_evidence(path):
    schema = "/root/.vp/EVIDENCE.schema.json"
    if not os.path.exists(schema):
        schema = os.path.join(VERIF, "mc", "EVIDENCE.schema.json")
    ev = json.load(open(path))
    # structural fallback, always run
    for k in ("property_id", "tier", "seed", "level", "coverage", "wall_s"):
        if k not in ev:
            raise HarnessError(f"evidence misses {k}")
    cov = ev["coverage"]
    for k in ("states", "transitions", "traces_validated_against_impl", "samples", "evaluations",
              "distinct_nontrivial", "rule"):
        if k not in cov:
            raise HarnessError(f"evidence coverage misses {k}")
    if cov["states"] < 1 or cov["transitions"] < 1 or not cov["samples"] or cov["distinct_nontrivial"] < 2:
        raise HarnessError("evidence coverage counts are vacuous")
    if os.path.exists(schema) and os.path.exists("/opt/veriftools/pyvenv/bin/python"):
        code = ("import json,sys,jsonschema;"
                "jsonschema.validate(json.load(open(sys.argv[1])),json.load(open(sys.argv[2])))")
        r = subprocess.run(["/opt/veriftools/pyvenv/bin/python", "-c", code, path, schema],
                           capture_output=True, text=True)
        if r.returncode != 0:
            raise HarnessError("evidence does not validate: " + r.stderr[-500:])


def write_evidence(pid, tier, seed, tot: Total, mod, ctx, wall, nviol, known):
    path = os.path.join(OUT, "evidence", f"{pid}.json")
    os.makedirs(os.path.dirname(path), exist_ok=True)
    samples = tot.samples[: 6]
    k = len(tot.samples)
    if k > 6:  # seed only chooses which explored cases are shown
        start = seed % k
        samples = [tot.samples[(start + i * max(1, k // 6)) % k] for i in range(6)]
    cov = {
        "states": tot.states,
        "transitions": tot.transitions,
        "traces_validated_against_impl": tot.validated,
        "evaluations": tot.n,
        "distinct_nontrivial": tot.nontrivial,
        "rule": mod.RULE + ((" || scale families: " + mod.SCALE) if getattr(mod, "SCALE", None) else ""),
        "samples": samples,
        "exhaustive": not tot.caps_hit,
        "bounds": ctx.get("bounds", {}),
        "caps_hit": tot.caps_hit,
        "coverage_facts": dict(sorted(tot.flags.items())),
        "distinct_outcomes": len(tot.outcomes),
        "outcome_classes": sorted(tot.outcomes)[:40],
        "violation_signatures": dict(tot.viol_count),
        "known_findings_reported": known,
        "engine": mod.ENGINE,
        "workers": NPROC,
        "root": ROOT,
    }
    cov.update(tot.extra)
    ev = {
        "property_id": pid, "tier": tier, "seed": seed, "level": "model_checking",
        "coverage": cov,
        "assumptions": getattr(mod, "ASSUMPTIONS", []),
        "wall_s": round(wall, 2), "violations": nviol,
    }
    tmp = path + ".tmp"
    with open(tmp, "w") as f:
        json.dump(ev, f, indent=1, default=str)
    os.replace(tmp, path)
    validate_evidence(path)
    return path


# --------------------------------------------------------------------------------------------
# driver

def load_prop(pid):
    return importlib.import_module(f"mc.props.{pid.lower()}")


def reproduce(mod, v: Viol, ctx) -> bool:
    """A reported violation must re-occur twice from its recorded description, from scratch."""
    if getattr(mod, "FRESH_WORKERS", False):
        # behaviour may depend on module-level state: replay in brand-new interpreter processes
        import tempfile
        pid = mod.__name__.rsplit(".", 1)[-1].upper()
        with tempfile.NamedTemporaryFile("w", suffix=".json", delete=False) as f:
            json.dump({"property": pid, "tier": ctx.get("tier", "quick"), "seed": ctx.get("seed", 0), "case": v.case}, f, default=str)
        try:
            for _ in range(2):
                r = subprocess.run([os.path.join(VERIF, "check"), pid, "--replay", f.name], capture_output=True, text=True,
                                   env=dict(os.environ))
                if r.returncode != 1 or f" {v.sig}:" not in r.stdout:
                    return False
            return True
        finally:
            os.unlink(f.name)
    for _ in range(2):
        got = mod.replay(v.case, ctx)
        if v.sig not in [g[0] for g in got]:
            return False
    return True


def run_check(pid, tier, seed):
    t0 = time.time()
    boot()
    from mc import hist
    hist.TIER = tier
    mod = load_prop(pid)
    ctx = mod.context(tier, seed)
    ctx.setdefault("tier", tier)
    ctx.setdefault("seed", seed)
    try:
        return _run_check(pid, tier, seed, mod, ctx, t0)
    finally:
        if hasattr(mod, "cleanup"):
            mod.cleanup(ctx)


def _run_check(pid, tier, seed, mod, ctx, t0):
    tot = bfs(mod, ctx) if mod.ENGINE.startswith("E2") and hasattr(mod, "build") else sweep(mod, ctx)
    if hasattr(mod, "post"):
        mod.post(tot, ctx)          # e.g. abstract fixed point, cross-unit checks
    # vacuity guards
    required = list(getattr(mod, "REQUIRED_FLAGS", [])) + (["numpy_integer_ticks"] if getattr(mod, "TICK_EVERY", 0) else [])
    missing = [f for f in required if tot.flags.get(f, 0) < 1]
    findings = load_findings(pid)
    tot.viols.sort(key=lambda v: (v.order, v.sig))
    new, known_lines, seen_sig = [], {}, set()
    for v in tot.viols:
        rec = next((r for r in findings if finding_matches(r, v)), None)
        if rec is not None:
            known_lines.setdefault(rec["id"], rec)
            continue
        if (v.sig, jkey(v.tags)) in seen_sig:
            continue
        seen_sig.add((v.sig, jkey(v.tags)))
        new.append(v)
    confirmed = []
    for v in new[: MAX_REPORT * 3]:
        if len(confirmed) >= MAX_REPORT:
            break
        if not reproduce(mod, v, ctx):
            raise HarnessError(f"violation {v.sig} does not reproduce from its description: {jkey(v.case)[:400]}")
        confirmed.append(v)
    wall = time.time() - t0
    path = write_evidence(pid, tier, seed, tot, mod, ctx, wall, sum(tot.viol_count.values()),
                          sorted(known_lines))
    print(f"[{pid}] tier={tier} seed={seed} engine={mod.ENGINE} cases={tot.n} states={tot.states} "
          f"transitions={tot.transitions} validated={tot.validated} nontrivial={tot.nontrivial} "
          f"outcomes={len(tot.outcomes)} wall={wall:.1f}s evidence={path}")
    if tot.extra:
        print(f"[{pid}] " + " ".join(f"{k}={v}" for k, v in tot.extra.items() if not isinstance(v, (dict, list))))
    for rid, rec in sorted(known_lines.items()):
        print(f"KNOWN-FINDING: property={pid} {rid}: {rec['what']}")
    # the coverage self-check guards against a vacuous SILENT run; when confirmed violations exist they are reported first
    # (on a broken tree a missing fact can be a consequence of the very defect being reported)
    if not confirmed and missing:
        raise HarnessError(f"coverage self-check failed, facts never observed: {missing}")
    if not confirmed and tot.caps_hit:
        raise HarnessError(f"cap hit before the promised bound was completed: {tot.caps_hit}")
    if confirmed:
        os.makedirs(os.path.join(OUT, "replays", pid), exist_ok=True)
        for v in confirmed:
            rp = os.path.join(OUT, "replays", pid, digest([v.sig, v.case]) + ".json")
            with open(rp, "w") as f:
                json.dump({"property": pid, "tier": tier, "seed": seed, "signature": v.sig, "case": v.case,
                           "detail": v.detail, "tags": v.tags}, f, indent=1, default=str)
            print(f"VIOLATION property={pid} replay={rp}")
            print(f"  signature: {v.sig}\n  detail: {v.detail[:600]}")
        return 1
    return 0


def run_replay(pid, path):
    boot()
    mod = load_prop(pid)
    rec = json.load(open(path))
    from mc import hist
    hist.TIER = rec.get("tier", "quick")
    ctx = mod.context(rec.get("tier", "quick"), rec.get("seed", 0))
    try:
        got = mod.replay(rec["case"], ctx)
    finally:
        if hasattr(mod, "cleanup"):
            mod.cleanup(ctx)
    print(f"replaying {path}\n case: {jkey(rec['case'])[:1500]}")
    if not got:
        print(" no violation on this tree")
        return 0
    for sig, detail in got:
        print(f" {sig}: {detail}")
    print(f"VIOLATION property={pid} replay={path}")
    return 1


def main(argv=None):
    import argparse
    ap = argparse.ArgumentParser()
    ap.add_argument("pid")
    ap.add_argument("--tier", default=os.environ.get("VERIF_TIER") or "quick", choices=["quick", "thorough"])
    ap.add_argument("--replay")
    a = ap.parse_args(argv)
    seed = int(os.environ.get("VERIF_SEED", "0") or 0)
    try:
        if a.replay:
            # a replay runs under the hash seed (= VERIF_SEED) of the run that recorded it
            want = str(json.load(open(a.replay)).get("seed", 0))
            if os.environ.get("PYTHONHASHSEED") != want:
                env = dict(os.environ, PYTHONHASHSEED=want, VERIF_SEED=want)
                os.execve(sys.executable, [sys.executable, "-B", "-c",
                                           'import sys; sys.path.insert(0, "."); from mc.core import main; sys.exit(main())',
                                           *sys.argv[1:]], env)
            return run_replay(a.pid.upper(), a.replay)
        return run_check(a.pid.upper(), a.tier, seed)
    except HarnessError as e:
        print(f"HARNESS-ERROR property={a.pid.upper()}: {e}", file=sys.stderr)
        return 2
    except BaseException as e:  # noqa: BLE001  (a crash of the harness must never look like exit 1)
        traceback.print_exc()
        print(f"HARNESS-ERROR property={a.pid.upper()}: crashed: {type(e).__name__}: {e}", file=sys.stderr)
        return 2


# --------------------------------------------------------------------------------------------
# convenience for E1 property modules: gen_cases(unit, ctx) + check_case(case, ctx) -> Res

class Res:
    """Outcome of checking one case."""
    __slots__ = ("viols", "nontrivial", "outcome", "flags", "transitions", "validated", "tags")

    def __init__(self):
        self.viols = []          # (sig, detail)
        self.nontrivial = False
        self.outcome = "ok"
        self.flags = []
        self.transitions = 1
        self.validated = 1
        self.tags = {}

    def bad(self, sig, detail=""):
        self.viols.append((sig, str(detail)[:1500]))

    def __iter__(self):
        return iter(self.viols)


def _check(mod, case, ctx):
    """check_case with the tick carrier type of the case switched on while it runs (case["ticktype"], see lib.set_tick)"""
    tick = case.get("ticktype") if isinstance(case, dict) else None
    if not tick:
        return mod.check_case(case, ctx)
    from mc import lib
    lib.set_tick(tick)
    try:
        res = mod.check_case(case, ctx)
        res.flags.append("numpy_integer_ticks")
        return res
    finally:
        lib.set_tick(None)


def std_run_unit(mod):
    """run_unit for modules that define gen_cases/check_case; samples the middle case of a unit."""
    def run_unit(unit, acc, ctx):
        k = 0
        want = getattr(mod, "SAMPLE_AT", 7)
        every = getattr(mod, "TICK_EVERY", 0)
        kinds = ("int64", "int32")

        def cases():
            # with TICK_EVERY = n, every n-th case of every unit is also run with its ticks handed over as numpy integers
            for i, c in enumerate(mod.gen_cases(unit, ctx)):
                yield c
                if every and i % every == 0 and isinstance(c, dict) and "ticktype" not in c:
                    yield dict(c, ticktype=kinds[(i // every) % 2])
        for case in cases():
            res = _check(mod, case, ctx)
            acc.case(key=jkey(case), nontrivial=res.nontrivial, transitions=res.transitions, validated=res.validated)
            for f in res.flags:
                acc.flags[f] += 1
            acc.outcomes.add(res.outcome if not res.viols else "VIOL:" + res.viols[0][0])
            for sig, detail in res.viols:
                # modules whose behaviour may depend on what ran earlier in the process record the unit and the position
                # of the case in it: the replay then re-runs the unit's prefix in a brand-new process
                vcase = {"unit": unit, "index": k, "case": case} if getattr(mod, "FRESH_WORKERS", False) else case
                acc.violation(sig, vcase, detail, res.tags)
            if k == want and (res.nontrivial or not acc.samples):
                acc.sample(case)
            elif k > want and not acc.samples and res.nontrivial:
                acc.sample(case)
            k += 1
    return run_unit


def std_replay(mod):
    def replay(case, ctx):
        if isinstance(case, dict) and set(case) == {"unit", "index", "case"}:
            unit = case["unit"]
            unit = tuple(unit) if isinstance(unit, list) else unit
            res = None
            for k, c in enumerate(mod.gen_cases(unit, ctx)):
                res = _check(mod, c, ctx)
                if k == case["index"]:
                    if jkey(c) != jkey(case["case"]):
                        raise HarnessError("replay: the unit enumerates differently from the recorded run")
                    return list(res.viols)
            return []
        return list(_check(mod, case, ctx).viols)
    return replay
