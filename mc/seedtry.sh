#!/bin/sh
# usage: mc/seedtry.sh <seeded dir name> [PID ...]   (quick look: no test suite, one seed, scratch worktree 3)
name="$1"; shift
pid="${1:-$(echo "$name" | cut -d_ -f1)}"
SEED_WT=/tmp/wt_verify3 /venv/bin/python -m mc.seedrun /verif/seeded/$name/patch.diff /verif/seeded/$name/demo.py "$pid" --skip-tests 2>&1 \
  | grep -E '"exit"|signature|"error"|HARNESS|demo_with_change_exit' | cut -c1-220 | head -8
