"""C15 - merging sequences yields exactly the union of their music (E1)."""
import itertools
import sys

from mc import core, hist, lib
from scoda.sequences.sequence import Sequence

ENGINE = "E1-sweep"
TICK_EVERY = 5      # every 5th case of every unit is repeated with numpy integer ticks (int64 / int32)
RULE = ("all multisets of 1-3 member sequences (members = every well-formed set of <=2 notes over the interval lattice x 2 "
        "channels (x 2 pitches thorough), empty members, members with 0-2 signature events, trailing-rest variants) x ALL "
        "permutations x {merged into an empty receiver, merged into the first member}; compared with the union model; "
        "non-trivial = two members share a (channel, pitch) and overlap or abut")
SCALE = ('16-120 notes in 2-3 members; a 1-2 note phrase touching / overlapping / preceding the i-th note for EVERY i of a 33/65/129-note piece; 4, 5 and 6 members all sounding one (channel, pitch) at once (nested, staircase, identical; every permutation up to 5 members, all rotations and reversals for 6); one sequence object twice in a family (receiver among its operands, member twice, member beside its copy); operands handed over as tuple / generator / iterator / map / reversed every 6th case; the A-B-A signature pattern on two channels; numpy integer ticks every 5th case')
ASSUMPTIONS = ["velocity of fused notes is not demanded", "members never carry two different signatures of one kind on one tick"]
REQUIRED_FLAGS = ["operands_on_half_ticks", "operands_not_a_list", "after_history", "overlap_fused", "nested", "abutting_kept_separate", "identical_notes", "empty_member",
                  "signature_repeat_dropped", "member_restates_own_signature_after_foreign_change", "different_durations", "permutation_checked", "receiver_nonempty", "five_or_more_members",
                  "short_phrase_into_long_piece", "receiver_among_its_own_operands"]


def context(tier, seed):
    p = [60, 21, 107, 64][seed % 4]
    ch = [(0, 9), (2, 15), (1, 12)][(seed // 4) % 3]      # always one channel below 8 and one above (sort-key fields)
    return {"p": p, "ch": ch, "tier": tier,
            "bounds": {"intervals": IV_T, "channels": list(ch),
                       "pitches": [p] if tier == "quick" else [p, p + 1], "family_size": [1, 3]}}


IV_Q = [(0, 2), (0, 4), (2, 2), (2, 4), (4, 4), (1, 7), (4, 2)]
IV_T = IV_Q + [(0, 8), (3, 1), (6, 2), (2, 6)]


def members(ctx):
    p, (c0, c1) = ctx["p"], ctx["ch"]
    iv = IV_T
    pitches = [p] if ctx["tier"] == "quick" else [p, p + 1]
    notes = [(o, l, pp, cc, 64) for (o, l) in iv for pp in pitches for cc in (c0, c1)]
    if ctx["tier"] != "quick":
        notes2 = [(o, l, pp, cc, 64) for (o, l) in IV_Q for pp in pitches for cc in (c0, c1)]
    else:
        notes2 = notes
    one = [[n] for n in notes]
    two = [list(c) for c in itertools.combinations(notes2, 2) if lib.well_formed(c)]
    return [[]] + one, two


SIGOPTS = [[], [("ts", 0, 3, 4)], [("ts", 4, 3, 4)], [("ts", 4, 4, 4)], [("ks", 2, "G")], [("ts", 0, 3, 4), ("ks", 2, "G")],
           [("ks", 2, "D")], [("ts", 0, 3, 4), ("ts", 4, 4, 4)], [("ts", 4, 3, 8)], [("ts", 0, 3, 4), ("ts", 6, 3, 8)],
           # a member restating its own signature (a repeat in its own context, not in the merged one)
           [("ts", 0, 3, 4), ("ts", 6, 3, 4)], [("ks", 0, "G"), ("ks", 6, "G")], [("ks", 4, "D")],
           # different signatures of equal bar length
           [("ts", 0, 3, 4), ("ts", 6, 6, 8)], [("ts", 6, 6, 8)], [("ts", 4, 2, 2)]]


def units(ctx):
    small, two = members(ctx)
    allm = small + two
    for i in range(len(allm)):
        yield ("pair", i)
    for i in range(len(small)):
        yield ("triple", i)
    for i in range(len(SIGOPTS)):
        yield ("sig", i)
    yield from hist.hist_units()
    yield ("long", 0)
    for n in (33, 65, 129):
        for r in range(4):
            yield ("phrase", n, r)
    for k in (4, 5, 6):
        yield ("deep", k)
    for i in range(len(small)):
        yield ("self", i)
    yield ("chsig", 0)
    for k in range(3):
        yield ("limits", k)
    yield ("half", 0)


def gen_cases(unit, ctx):
    return lib.with_carriers(_gen_cases(unit, ctx), 6, "opcarrier", ("tuple", "generator", "iterator", "map", "reversed"))


def _fam(ms, durs=None):
    return {"members": [{"notes": [list(n) for n in m.get("notes", m) if True] if isinstance(m, dict) else [list(n) for n in m],
                         "events": (m.get("events") if isinstance(m, dict) else []),
                         "dur": (m.get("dur") if isinstance(m, dict) else None)} for m in ms]}


def _gen_cases(unit, ctx):
    if unit[0] == "phrase":
        # scale: a short phrase merged with a long piece (33 / 65 / 129 notes); the phrase's note touches, overlaps or
        # precedes the i-th note of the piece on the same channel and pitch - for EVERY i
        p, (c0, c1) = ctx["p"], ctx["ch"]
        _, n, r = unit
        ns = lib.long_desc(n, p, (c0, c1, 3), 5, lens=(3, 9, 5, 14))
        for i in range(r, n, 4):
            o, l, pp, cc, _v = ns[i]
            for ph in ([(o + l, 4, pp, cc, 70)], [(max(0, o - 4), min(4, o), pp, cc, 70)] if o else [], [(o + 1, l + 3, pp, cc, 70)],
                       [(o + l, 2, pp, cc, 70), (o + l + 2, 2, pp, cc, 71)]):
                if ph:
                    yield {"members": [{"notes": [list(x) for x in ns], "events": [], "dur": None},
                                       {"notes": [list(x) for x in ph], "events": [], "dur": None}]}
        return
    if unit[0] == "limits":
        # both limits of the piano range and of the MIDI range (and their neighbours) sounding together on neighbouring
        # channels: every ordered pair of pitches, the two notes overlapping / nested / abutting in time
        c = (0, 1, 8)[unit[1]]
        P = [0, 1, 20, 21, 22, 107, 108, 109, 126, 127]
        for pa in P:
            for pb in P:
                for (ia, ib) in (((0, 4), (2, 4)), ((0, 8), (2, 2)), ((0, 4), (4, 4))):
                    yield {"members": [{"notes": [[ia[0], ia[1], pa, c, 64]], "events": [], "dur": None},
                                       {"notes": [[ib[0], ib[1], pb, c + 1, 70]], "events": [], "dur": None}]}
                yield {"members": [{"notes": [[0, 6, pa, c, 64], [3, 6, pb, c + 1, 70]], "events": [], "dur": None},
                                   {"notes": [[1, 2, pb, c + 1, 9]], "events": [], "dur": 12}]}
        return
    if unit[0] == "half":
        # operands on half ticks (every tick of the description handed over halved, as it is after scale(0.5) without
        # re-quantising); the observation is doubled again before it is compared
        p, (c0, c1) = ctx["p"], ctx["ch"]
        IVO = [(1, 3), (3, 5), (1, 7), (5, 3), (8, 1), (0, 9), (4, 5)]
        ns = [(o, l, pp, cc, 64) for (o, l) in IVO for (pp, cc) in ((p, c0), (p, c1), (p + 1, c0))]
        for a in ns:
            for b in ns:
                yield {"members": [{"notes": [list(a)], "events": [], "dur": None}, {"notes": [list(b)], "events": [["ts", 3, 3, 4]], "dur": 15}],
                       "ticktype": "half"}
        for i in range(0, len(ns) - 2, 2):
            tri = [ns[i], ns[i + 1], ns[i + 2]]
            if lib.well_formed(tri[:2]):
                yield {"members": [{"notes": [list(x) for x in tri[:2]], "events": [["ks", 5, "G"]], "dur": 21},
                                   {"notes": [list(tri[2])], "events": [], "dur": None}], "ticktype": "half"}
        return
    if unit[0] == "chsig":
        # signature events on different channels: A on one channel, B on another in between, A again on the first
        p, (c0, c1) = ctx["p"], ctx["ch"]
        for (ca, cb) in ((c0, c1), (c1, c0), (c0, c0)):
            for note in ([], [[2, 4, p, ca, 64]]):
                a1 = [["ts", 0, 4, 4, ca], ["ks", 0, "C", ca]]
                b_ = [["ts", 4, 3, 4, cb], ["ks", 4, "G", cb]]
                a2 = [["ts", 8, 4, 4, ca], ["ks", 8, "C", ca]]
                yield {"members": [{"notes": note, "events": a1 + a2, "dur": None}, {"notes": [], "events": b_, "dur": 12}]}
                yield {"members": [{"notes": note, "events": a1, "dur": None}, {"notes": [], "events": b_, "dur": None},
                                   {"notes": [], "events": a2, "dur": 12}]}
                yield {"members": [{"notes": note, "events": a1 + b_ + a2, "dur": 12}]}
        return
    if unit[0] == "self":
        # families in which one sequence OBJECT occurs twice: the receiver among its own operands, a member listed twice,
        # a member beside its own copy
        small, _ = members(ctx)
        for j in range(unit[1], len(small)):
            fam = _fam([small[unit[1]], small[j]])
            fam["selfops"] = True
            yield fam
            if j % 5 == 0:
                fam2 = _fam([{"notes": small[unit[1]], "events": [("ts", 0, 3, 4)], "dur": 9}, small[j]])
                fam2["selfops"] = True
                yield fam2
        return
    if unit[0] == "deep":
        # scale in the number of members: k sequences all sounding one (channel, pitch) at once - nested, staircase,
        # identical - every permutation (k <= 5) or all rotations and reversals (k = 6)
        p, (c0, c1) = ctx["p"], ctx["ch"]
        k = unit[1]
        for shape in ("nested", "stairs", "same", "nested_plus_own"):
            mems = []
            for j in range(k):
                if shape == "nested":
                    notes = [[j, 40 - 2 * j, p, c0, 60 + j]]
                elif shape == "stairs":
                    notes = [[3 * j, 20, p, c0, 60 + j]]
                elif shape == "same":
                    notes = [[2, 9, p, c0, 60 + j]]
                else:
                    notes = [[j, 40 - 2 * j, p, c0, 60 + j], [50 + j, 3, p + 1 + j % 2, c1, 9]]
                mems.append({"notes": notes, "events": [], "dur": None})
            yield {"members": mems, "perms": "all" if k <= 5 else "rot"}
        return
    if unit[0] == "long":
        p, (c0, c1) = ctx["p"], ctx["ch"]
        for n in (16, 48, 120):
            ns = lib.long_desc(n, p, (c0, c1, 3), 5, lens=(3, 9, 5, 14))
            shifted = [(o + 2, l, pp, cc, 64) for (o, l, pp, cc, v) in ns]      # overlaps every note of the original
            for k in (2, 3):
                yield {"members": [{"notes": [list(x) for x in ns[i::k]], "events": [["ts", 0, 3, 4]] if i == 0 else [], "dur": None}
                                   for i in range(k)]}
            yield {"members": [{"notes": [list(x) for x in ns], "events": [], "dur": None},
                               {"notes": [list(x) for x in shifted], "events": [["ks", 7, "G"]], "dur": 5 * n + 50}]}
        return
    if unit[0] == "hist":
        p, (c0, c1) = ctx["p"], ctx["ch"]
        for h in hist.hist_of_unit(unit):
            for other in ([], [[3, 9, p, c0, 70]], [[0, 400, 108, c0, 9], [2, 4, p + 1, c1, 5]]):
                yield {"hist_member": {"seed": unit[1], "build": unit[2], "hist": h}, "other": other}
        return
    small, two = members(ctx)
    allm = small + two
    kind, i = unit
    if kind == "pair":
        yield _fam([allm[i]])
        for j in range(i, len(allm)):
            yield _fam([allm[i], allm[j]])
            if j % 7 == 0:
                yield _fam([{"notes": allm[i], "events": [], "dur": 11}, allm[j]])
    elif kind == "triple":
        for j in range(i, len(small)):
            for k in range(j, len(small)):
                yield _fam([small[i], small[j], small[k]])
    else:
        p, (c0, c1) = ctx["p"], ctx["ch"]
        base = [[], [(0, 4, p, c0, 64)], [(2, 4, p, c0, 64)]]
        for j in range(i, len(SIGOPTS)):
            for a in base:
                for b in base:
                    if conflict(SIGOPTS[i], SIGOPTS[j]):
                        continue
                    yield _fam([{"notes": a, "events": SIGOPTS[i], "dur": None}, {"notes": b, "events": SIGOPTS[j], "dur": None}])
                    for k in (1, 3, 4):
                        if not conflict(SIGOPTS[i], SIGOPTS[k]) and not conflict(SIGOPTS[j], SIGOPTS[k]):
                            yield _fam([{"notes": a, "events": SIGOPTS[i], "dur": None},
                                        {"notes": b, "events": SIGOPTS[j], "dur": 9},
                                        {"notes": [], "events": SIGOPTS[k], "dur": None}])


def conflict(e1, e2):
    for a in e1:
        for b in e2:
            if a[0] == b[0] and a[1] == b[1] and tuple(a) != tuple(b):
                return True
    return False


def model(mems):
    """union model computed from the description"""
    by = {}
    dur = 0
    sig = []
    for m in mems:
        for o, l, p, c, v in m["notes"]:
            by.setdefault((c, p), []).append((o, o + l))
            dur = max(dur, o + l)
        for e in m["events"]:
            sig.append(tuple(e[:4]) if e[0] == "ts" else tuple(e[:3]))       # an event may name its channel as a last field
            dur = max(dur, e[1])
        if m["dur"]:
            dur = max(dur, m["dur"])
    notes, facts = [], set()
    for (c, p), ivs in by.items():
        ivs.sort()
        if len(set(ivs)) < len(ivs):
            facts.add("identical_notes")
        comps = []
        for a, b in ivs:
            if comps and a < comps[-1][1]:            # positive overlap with the running component
                if b <= comps[-1][1]:
                    facts.add("nested")
                facts.add("overlap_fused")
                comps[-1][1] = max(comps[-1][1], b)
            else:
                if comps and a == comps[-1][1]:
                    facts.add("abutting_kept_separate")
                comps.append([a, b])
        notes.extend((c, p, a, b) for a, b in comps)
    ev, ts_, ks_ = [], None, None
    for e in sorted(set(sig), key=lambda e: (e[1], e[0])):
        if e[0] == "ts":
            if (e[2], e[3]) != ts_:
                ev.append(e)
            ts_ = (e[2], e[3])
        else:
            if e[2] != ks_:
                ev.append(e)
            ks_ = e[2]
    if len(ev) < len(sig):
        facts.add("signature_repeat_dropped")
    for m in mems:
        own = sorted((tuple(e) for e in m["events"]), key=lambda e: e[1])
        for a, b in zip(own, own[1:]):
            if a[0] == b[0] and a[2:] == b[2:] and any(x[0] == a[0] and a[1] < x[1] < b[1] and x[2:] != a[2:] for x in sig):
                facts.add("member_restates_own_signature_after_foreign_change")
    return sorted(notes), sorted(ev, key=str), dur, facts


def check_case(case, ctx):
    R = core.Res()
    live_spec = None
    if "hist_member" in case:
        # one member is a live object with a history; its content is read back through the public views
        live_spec = case["hist_member"]
        live = hist.live_case(live_spec, R, ctx["p"], *ctx["ch"], hp=ctx["p"] - 20)
        if live is None:
            return R
        _, ln, le, ld = live
        mems = [{"notes": ln, "events": le, "dur": ld, "live": True}, {"notes": case["other"], "events": [], "dur": None}]
    else:
        mems = case["members"]
    want_notes, want_ev, want_dur, facts = model(mems)
    R.flags.extend(sorted(facts))
    if any(not m["notes"] and not m["events"] for m in mems):
        R.flags.append("empty_member")
    durs = {max([n[0] + n[1] for n in m["notes"]] + [e[1] for e in m["events"]] + [m["dur"] or 0]) for m in mems}
    if len(durs) > 1:
        R.flags.append("different_durations")
    R.nontrivial = bool(facts & {"overlap_fused", "abutting_kept_separate", "nested", "identical_notes"})
    want_roll = lib.roll_of_notes(want_notes)
    n_exec = 0
    if case.get("perms") == "rot":
        k_ = len(mems)
        perms = sorted({tuple((s + d * i) % k_ for i in range(k_)) for s in range(k_) for d in (1, -1)})
    else:
        perms = sorted(set(itertools.permutations(range(len(mems)))))
    if len(mems) >= 5:
        R.flags.append("five_or_more_members")
    if len(mems) == 2 and len(mems[0]["notes"]) >= 33 and 0 < len(mems[1]["notes"]) <= 2:
        R.flags.append("short_phrase_into_long_piece")
    for perm in perms:
        for mode in ("into_empty", "into_first") + (("self_among_operands", "member_twice", "member_and_its_copy")
                                                    if case.get("selfops") else ()):
            # members are built alternately through the absolute and the relative representation
            seqs = [hist.live_case(live_spec, core.Res(), ctx["p"], *ctx["ch"], hp=ctx["p"] - 20)[0] if mems[i].get("live") else
                    (lib.seq_rel(mems[i]["notes"], mems[i]["events"], mems[i]["dur"]) if (k + (mode == "into_first")) % 2 else
                     lib.seq_abs(mems[i]["notes"], mems[i]["events"], mems[i]["dur"],
                                 order=("sane", "reverse", "ons_first")[(i + len(perm) + (mode == "into_first")) % 3]))
                    for k, i in enumerate(perm)]
            if mode == "self_among_operands":
                recv, rest = seqs[0], [seqs[0]] + seqs[1:]
                R.flags.append("receiver_among_its_own_operands")
            elif mode == "member_twice":
                recv, rest = Sequence(), seqs + [seqs[0]]
            elif mode == "member_and_its_copy":
                recv, rest = Sequence(), seqs + [seqs[-1].copy()]
            elif mode == "into_empty":
                recv, rest = Sequence(), seqs
            else:
                recv, rest = seqs[0], seqs[1:]
                if mems[perm[0]]["notes"]:
                    R.flags.append("receiver_nonempty")
            if case.get("ticktype") == "half":
                R.flags.append("operands_on_half_ticks")
            try:
                if case.get("opcarrier"):
                    # the same operands handed over as a tuple / generator / iterator / map object / reversed(...)
                    recv.merge(lib.carriers(rest)[case["opcarrier"]]())
                    R.flags.append("operands_not_a_list")
                else:
                    recv.merge(rest)
                o = lib.obs(recv)
            except Exception as e:  # noqa: BLE001
                R.bad("merge_raises", f"perm {perm} {mode}: {type(e).__name__}: {e}")
                continue
            n_exec += 1
            if len(perm) > 1:
                R.flags.append("permutation_checked")
            for view in ("abs", "rel"):
                ev, d = o[view]
                tag = f"perm {list(perm)} {mode} {view}"
                if case.get("ticktype") == "half":
                    dbl = [e[0] * 2 for e in ev] + [d * 2]
                    if any(x != int(x) for x in dbl):
                        R.bad("sounding_set_is_not_the_union", f"{tag}: merged events off the half-tick lattice: {ev} duration {d}")
                        continue
                    ev, d = [(int(e[0] * 2),) + tuple(e[1:]) for e in ev], int(d * 2)
                pn, orph, retr, uncl = lib.pair_notes(ev)
                if orph or retr or uncl:
                    R.bad("merged_ill_formed", f"{tag}: orphans {orph} retriggers {retr} unclosed {uncl}")
                if lib.roll_of_notes(pn) != want_roll:
                    R.bad("sounding_set_is_not_the_union", f"{tag}: got notes {pn}, union notes {want_notes}")
                elif sorted(n[:4] for n in pn) != want_notes:
                    R.bad("notes_not_maximal_union_intervals", f"{tag}: got {sorted(n[:4] for n in pn)} expected {want_notes}")
                got_ev = sorted([("ts", e[0], e[5], e[6]) if e[1] == "time_signature" else ("ks", e[0], e[7])
                                 for e in lib.non_note(ev)], key=str)
                if got_ev != [tuple(x) for x in want_ev]:
                    R.bad("signature_events_wrong", f"{tag}: got {got_ev} expected {want_ev}")
                if d != want_dur:
                    R.bad("duration_not_maximum", f"{tag}: {d} expected {want_dur}")
    R.transitions = n_exec
    R.validated = 2 * n_exec
    R.outcome = "+".join(sorted(facts)) or "plain"
    R.tags = {"family": len(mems)}
    return R


_m = sys.modules[__name__]
run_unit = core.std_run_unit(_m)
replay = core.std_replay(_m)
