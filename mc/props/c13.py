"""C13 - loading rescales file ticks exactly and routes every event to the right sequence (E1, real files)."""
import itertools
import os
import shutil
import sys
import tempfile
from fractions import Fraction

import mido

from mc import core, lib
from scoda.sequences.sequence import Sequence

ENGINE = "E1-sweep"
RULE = ("files written directly with mido: (R) every delta-time word up to the length bound over {0,1,7,10,240} x 8 "
        "resolutions, events cycling through note_on / note_off (both encodings) / time signature / key signature, each "
        "event checked against its exact rational position; (L) long runs of one small delta; (G) 1-4 tracks x EVERY "
        "assignment of tracks to <=2 ordered non-empty groups or to no group x every meta-track subset x every meta "
        "target; (K) all 30 mido key names; non-trivial = resolution != 24 or >= 2 tracks")
SCALE = ('runs of 1100 / 2300 / 5000 events of one delta (7 and 27 file ticks) and a 2400-event mixed pattern at every resolution; track indices as numpy integers and tuples')
ASSUMPTIONS = ["mido's byte-level reading/writing is trusted", "both neighbours are accepted on exact .5 ties",
               "drift is checked for runs of up to 5000 events per track"]
REQUIRED_FLAGS = ["tpb_not_24", "non_integer_position", "exact_tie", "note_off_as_note_on_velocity_0", "group_of_two_tracks",
                  "track_in_no_group", "meta_target_not_first", "overlap_across_tracks_fused", "long_run", "all_30_key_names",
                  "meta_subset_excludes_grouped_track", "same_file_object_converted_twice", "stray_note_event_in_grouped_track",
                  "indices_as_numpy_integers", "signature_ABA_across_tracks", "signature_ABA_on_one_track",
                  "signature_bar_not_whole_ticks"]

TPBS = [24, 48, 96, 480, 10, 7, 36, 1000]
# (S) every time signature n/d a MIDI file can state with these numerators and denominators (bars that are no whole
# number of library ticks included: the loader has to route the event all the same), and every key, in an A - B - A
# pattern whose members live on different considered tracks
DENOMS = [1, 2, 4, 8, 16, 32, 64, 128]
NUMERS = [1, 2, 3, 4, 5, 6, 7, 9, 10, 12, 14, 16, 18, 20, 24, 32]
DELTAS = [0, 1, 7, 10, 240]
MAJOR_OF = {"Am": "C", "Em": "G", "Bm": "D", "F#m": "A", "C#m": "E", "G#m": "B", "D#m": "F#", "A#m": "C#", "Dm": "F",
            "Gm": "Bb", "Cm": "Eb", "Fm": "Ab", "Bbm": "Db", "Ebm": "Gb", "Abm": "Cb"}
MIDO_KEYS = ['A', 'A#m', 'Ab', 'Abm', 'Am', 'B', 'Bb', 'Bbm', 'Bm', 'C', 'C#', 'C#m', 'Cb', 'Cm', 'D', 'D#m', 'Db', 'Dm', 'E',
             'Eb', 'Ebm', 'Em', 'F', 'F#', 'F#m', 'Fm', 'G', 'G#m', 'Gb', 'Gm']


def context(tier, seed):
    base = "/dev/shm" if os.path.isdir("/dev/shm") and os.access("/dev/shm", os.W_OK) else None
    k = 5 if tier == "quick" else 6
    return {"tier": tier, "k": k, "p": [60, 30, 45][seed % 3], "tmpdir": tempfile.mkdtemp(prefix="scoda_c13_", dir=base),
            "bounds": {"ticks_per_beat": TPBS, "deltas": DELTAS, "max_word_length": k, "tracks": [1, 3 if tier == "quick" else 4],
                       "long_run_events": 5000, "key_names": 30}}


def cleanup(ctx):
    shutil.rmtree(ctx.get("tmpdir", ""), ignore_errors=True)


def units(ctx):
    for tpb in (TPBS if ctx["tier"] == "quick" else TPBS + [1, 3, 96 * 5, 120, 192, 384, 960, 25]):
        for d0 in DELTAS:
            for d1 in DELTAS:
                yield ("R", tpb, d0, d1)
        yield ("L", tpb)
    for T in range(1, (3 if ctx["tier"] == "quick" else 4) + 1):
        for shape in range(4):
            yield ("G", T, shape)
    for tpb in (480, 48, 10, 24):
        yield ("H", tpb)
    yield ("K",)
    for di in range(len(DENOMS)):
        yield ("S", di)


def groupings(T):
    """every assignment of tracks to <=2 ordered, disjoint, non-empty groups (or to none); both group orders"""
    out = []
    for asg in itertools.product((None, 0, 1), repeat=T):
        g0 = [i for i in range(T) if asg[i] == 0]
        g1 = [i for i in range(T) if asg[i] == 1]
        if not g0:
            continue
        gs = [g0] + ([g1] if g1 else [])
        out.append(gs)
        if len(g0) > 1:
            out.append([list(reversed(g0))] + ([g1] if g1 else []))
    return out


def gen_cases(unit, ctx):
    kind = unit[0]
    if kind == "R":
        _, tpb, d0, d1 = unit
        yield {"kind": "R", "tpb": tpb, "word": [d0]}
        yield {"kind": "R", "tpb": tpb, "word": [d0, d1]}
        for k in range(1, ctx["k"] - 1):
            for rest in itertools.product(DELTAS, repeat=k):
                yield {"kind": "R", "tpb": tpb, "word": [d0, d1] + list(rest)}
    elif kind == "L":
        for d in (1, 3, 7, 10):
            for n in (50, 200):
                yield {"kind": "R", "tpb": unit[1], "word": [d] * n}
        # scale: thousands of events on one track, every one checked against its exact rational position
        for d in (7, 27):
            for n in (1100, 2300, 5000):
                yield {"kind": "R", "tpb": unit[1], "word": [d] * n}
        yield {"kind": "R", "tpb": unit[1], "word": [1, 27, 240, 3] * 600}
    elif kind == "G":
        _, T, shape = unit
        for gs in groupings(T):
            for r in range(T + 1):
                for meta in itertools.combinations(range(T), r):
                    for target in range(len(gs)):
                        yield {"kind": "G", "T": T, "shape": shape, "groups": gs, "meta": list(meta), "target": target}
                        if shape == 0:
                            for carrier in ("numpy", "tuple"):
                                yield {"kind": "G", "T": T, "shape": shape, "groups": gs, "meta": list(meta), "target": target,
                                       "carrier": carrier}
    elif kind == "H":
        # the SAME parsed file object converted several times (different groupings), as a caller comparing groupings does
        for word in ([7, 10, 1, 240, 7, 10], [1, 1, 1, 1, 1, 1, 1, 1], [10, 0, 7, 240, 1, 7, 10, 10, 7]):
            yield {"kind": "H", "tpb": unit[1], "word": word}
    elif kind == "S":
        d = DENOMS[unit[1]]
        for n in NUMERS:
            for B in ((4, 4), (3, 8)):
                if (n, d) == B:
                    continue
                for layout in (0, 1, 2):
                    yield {"kind": "S", "what": "ts", "A": [n, d], "B": list(B), "layout": layout, "tpb": [24, 480][(n + layout) % 2]}
        for i, key in enumerate(sorted(MAJOR_OF.values())):
            if i % len(DENOMS) == unit[1]:
                for j, kb in enumerate(sorted(MAJOR_OF.values())):
                    if kb != key:
                        yield {"kind": "S", "what": "ks", "A": key, "B": kb, "layout": j % 3, "tpb": [24, 480][j % 2]}
    else:
        for key in MIDO_KEYS:
            for t in (0, 5):
                yield {"kind": "K", "key": key, "tick": t}


def path_of(ctx):
    return os.path.join(ctx["tmpdir"], f"{os.getpid()}.mid")


def events_of_word(word, p):
    """(file_tick, descriptor) for the cycling event kinds"""
    out, t = [], 0
    cyc = ["on", "off", "ts", "on", "off0", "ks"]
    note = p
    for i, d in enumerate(word):
        t += d
        k = cyc[i % 6]
        if k == "on":
            note = p + (i // 3) % 40          # p <= 60, so every generated pitch stays below 128
            out.append((t, d, "on", note))
        elif k in ("off", "off0"):
            out.append((t, d, k, note))
        elif k == "ts":
            out.append((t, d, "ts", ([2, 3, 5, 6, 7][(i // 6) % 5], 4)))
        else:
            out.append((t, d, "ks", ["G", "D", "A", "E", "B", "F"][(i // 6) % 6]))
    return out


def write_track(evs):
    tr = mido.MidiTrack()
    for t, d, k, x in evs:
        if k == "on":
            tr.append(mido.Message("note_on", note=x, velocity=64, time=d))
        elif k == "off":
            tr.append(mido.Message("note_off", note=x, velocity=0, time=d))
        elif k == "off0":
            tr.append(mido.Message("note_on", note=x, velocity=0, time=d))
        elif k == "ts":
            tr.append(mido.MetaMessage("time_signature", numerator=x[0], denominator=x[1], time=d))
        elif k == "ks":
            tr.append(mido.MetaMessage("key_signature", key=x, time=d))
    return tr


def near(t, r):
    return isinstance(t, int) and not isinstance(t, bool) and abs(Fraction(t) - r) <= Fraction(1, 2)


def check_R(case, ctx, R):
    tpb, word = case["tpb"], case["word"]
    evs = events_of_word(word, ctx["p"])
    mf = mido.MidiFile(ticks_per_beat=tpb)
    mf.tracks.append(write_track(evs))
    mf.save(path_of(ctx))
    seqs = Sequence.sequences_load(path_of(ctx))
    if len(seqs) != 1:
        R.bad("wrong_number_of_sequences", f"{len(seqs)}")
        return
    compare_positions(evs, tpb, word, seqs[0], R)


def check_H(case, ctx, R):
    from scoda.midi.midi_file import MidiFile
    tpb, word = case["tpb"], case["word"]
    evs = events_of_word(word, ctx["p"])
    mf = mido.MidiFile(ticks_per_beat=tpb)
    mf.tracks.append(write_track(evs))
    mf.tracks.append(write_track([(5, 5, "on", ctx["p"] + 50), (25, 20, "off", ctx["p"] + 50)]))
    mf.save(path_of(ctx))
    parsed = MidiFile.open(path_of(ctx))
    R.flags.append("same_file_object_converted_twice")
    for k, groups in enumerate(([[0], [1]], [[0]], [[0], [1]])):
        seqs = Sequence.sequences_load(midi_file=parsed, track_indices=groups, meta_track_indices=[0])
        compare_positions(evs, tpb, word, seqs[0], R, f"load #{k + 1} of the same object: ")
        if R.viols:
            return
    R.outcome = "H"


def compare_positions(evs, tpb, word, seq, R, where=""):
    ev = lib.view_abs(seq)[0]
    if tpb != 24:
        R.flags.append("tpb_not_24")
        R.nontrivial = True
    if len(word) >= 50:
        R.flags.append("long_run")
    if any(k == "off0" for _, _, k, _ in evs):
        R.flags.append("note_off_as_note_on_velocity_0")
    # match loaded events by identity, in file order
    pools = {}
    for e in ev:
        if e[1] in ("note_on", "note_off"):
            pools.setdefault((e[1], e[3]), []).append(e[0])
        elif e[1] == "time_signature":
            pools.setdefault(("ts", (e[5], e[6])), []).append(e[0])
        elif e[1] == "key_signature":
            pools.setdefault(("ks", e[7]), []).append(e[0])
    # expected survivors: normalise removes unpaired / re-triggered notes and repeated signatures; every event the
    # loader keeps must sit at the rounded exact position of SOME file event of the same identity
    exact = {}
    for t, d, k, x in evs:
        ident = ("note_on", x) if k == "on" else ("note_off", x) if k in ("off", "off0") else (k, x)
        r = Fraction(t * 24, tpb)
        exact.setdefault(ident, []).append(r)
        if r.denominator != 1:
            R.flags.append("non_integer_position")
            if r.denominator == 2:
                R.flags.append("exact_tie")
    for ident, ticks in pools.items():
        if ident == ("ts", (4, 4)):
            if ticks != [0]:
                R.bad("default_signature_wrong", f"4/4 at {ticks}")
            continue  # default signature (the words never contain 4/4)
        rs = exact.get(ident, [])
        for t in ticks:
            if not any(near(t, r) for r in rs):
                R.bad("event_not_at_nearest_tick", f"{where}{ident} loaded at {t!r}; exact positions {[str(r) for r in rs]} (tpb {tpb})")
    # every complete on/off pair and the first signature must be present
    # a complete note whose exact length exceeds one tick cannot collapse and must be present exactly once;
    # shorter ones may round to zero length (not representable) and are optional
    got_on = {}
    for k, v in pools.items():
        if k[0] == "note_on":
            got_on[k[1]] = len(v)
    file_notes = {}
    for i in range(1, len(evs)):
        if evs[i][2] in ("off", "off0") and evs[i - 1][2] == "on":
            file_notes.setdefault(evs[i][3], []).append(Fraction((evs[i][0] - evs[i - 1][0]) * 24, tpb))
    for pitch, lens in file_notes.items():
        must = sum(1 for x in lens if x > 1)
        if not must <= got_on.get(pitch, 0) <= len(lens):
            R.bad("notes_lost_or_invented", f"pitch {pitch}: {got_on.get(pitch, 0)} loaded, file has {len(lens)} "
                                            f"({must} longer than one tick); events {ev}")
    for pitch in got_on:
        if pitch not in file_notes:
            R.bad("notes_lost_or_invented", f"pitch {pitch} loaded but never completed in the file")
    for i, (t, d, k, x) in enumerate(evs):
        if k in ("ts", "ks") and (k, x) not in pools:
            R.bad("signature_lost", f"{k} {x} at file tick {t}")
    R.outcome = f"R{min(len(word), 7)}"


SHAPES = [
    # per track i: notes (file tick on, off, pitch offset) ; distinct pitches, overlapping in time across tracks
    lambda i: [(10 * i, 10 * i + 30, 2 * i)],
    # same pitch on every track, overlapping -> must fuse inside a group
    lambda i: [(12 * i, 12 * i + 20, 0), (100 + i, 110 + i, 5 + i)],
    # abutting / nested across tracks
    lambda i: [(0, 40 - 10 * i, 0)] if i % 2 == 0 else [(40, 60, 0), (5, 15, 7)],
    # shape 3: every odd track carries a stray note-off / a dangling note-on for the pitch that an even track plays
    lambda i: [(4, 44, 0)] if i % 2 == 0 else [(50, 58, 3)],
]
STRAYS = {3: lambda i: [] if i % 2 == 0 else [(20, "off", 0), (30 + i, "on", 0)]}


def check_G(case, ctx, R):
    T, gs, meta, target = case["T"], case["groups"], case["meta"], case["target"]
    p = ctx["p"]
    mf = mido.MidiFile(ticks_per_beat=24)
    desc = []
    for i in range(T):
        notes = SHAPES[case["shape"]](i)
        items = []
        for a, b, dp in notes:
            items.append((a, 1, "on", p + dp))
            items.append((b, 0, "off" if i % 2 else "off0", p + dp))
        for t_, k_, dp in STRAYS.get(case["shape"], lambda i: [])(i):
            items.append((t_, 0 if k_ == "off" else 1, "off" if k_ == "off" else "on", p + dp))
        items.append((24 * (i + 1), 2, "ts", (i + 2, 4)))
        items.append((7 + i, 2, "ks", ["G", "D", "A", "E"][i]))
        items.sort(key=lambda x: (x[0], x[1]))
        evs, prev = [], 0
        for t, _, k, x in items:
            evs.append((t, t - prev, k, x))
            prev = t
        mf.tracks.append(write_track(evs))
        desc.append(notes)
    mf.save(path_of(ctx))
    carrier = case.get("carrier", "list")
    if carrier == "numpy":          # indices as they come out of np.flatnonzero / np.arange
        import numpy as np
        ti, mi, tg = [[np.int64(i) for i in g] for g in gs], np.array(list(meta), dtype=np.int64), np.int64(target)
        R.flags.append("indices_as_numpy_integers")
    elif carrier == "tuple":
        ti, mi, tg = tuple(tuple(g) for g in gs), tuple(meta), target
    else:
        ti, mi, tg = [list(g) for g in gs], list(meta), target
    seqs = Sequence.sequences_load(path_of(ctx), track_indices=ti, meta_track_indices=mi, target_meta_track_index=tg)
    grouped = {i for g in gs for i in g}
    considered = grouped | set(meta)
    if T >= 2:
        R.nontrivial = True
    if any(len(g) >= 2 for g in gs):
        R.flags.append("group_of_two_tracks")
    if len(grouped) < T:
        R.flags.append("track_in_no_group")
    if target != 0:
        R.flags.append("meta_target_not_first")
    if grouped - set(meta):
        R.flags.append("meta_subset_excludes_grouped_track")
    if len(seqs) != len(gs):
        R.bad("wrong_number_of_sequences", f"{len(seqs)} for groups {gs}")
        return
    for gi, g in enumerate(gs):
        o = lib.obs(seqs[gi])
        want = set()
        for i in g:
            want |= {(0, p + dp, t) for a, b, dp in desc[i] for t in range(a, b)}
            if STRAYS.get(case["shape"], lambda i: [])(i):
                R.flags.append("stray_note_event_in_grouped_track")   # strays are cleaned per track and add nothing
        for view in ("abs", "rel"):
            ev = o[view][0]
            pn, orph, retr, uncl = lib.pair_notes(ev)
            got = lib.roll_of_notes(pn)
            if got != want or orph or retr or uncl:
                R.bad("group_sounding_set_is_not_union_of_its_tracks",
                      f"group {g} {view}: missing {sorted(want - got)[:4]} extra {sorted(got - want)[:4]} orphans {orph} unclosed {uncl}")
            if len(pn) < sum(len(desc[i]) for i in g):
                R.flags.append("overlap_across_tracks_fused")
            sig = sorted([("ts", e[0], (e[5], e[6])) for e in ev if e[1] == "time_signature"] +
                         [("ks", e[0], e[7]) for e in ev if e[1] == "key_signature"], key=str)
            if gi == target:
                want_sig = [("ts", 24 * (i + 1), (i + 2, 4)) for i in sorted(considered)] + \
                           [("ks", 7 + i, ["G", "D", "A", "E"][i]) for i in sorted(considered)] + [("ts", 0, (4, 4))]
                if sig != sorted(want_sig, key=str):
                    R.bad("signatures_on_meta_target_wrong", f"{view}: got {sig} expected {sorted(want_sig, key=str)}; considered {sorted(considered)}")
            elif sig:
                R.bad("signature_on_non_meta_sequence", f"group {gi} {view}: {sig}")
    R.outcome = f"G{T}g{len(gs)}"


def check_S(case, ctx, R):
    """A - B - A signatures spread over the considered tracks; the signature in force at every tick must be the file's"""
    what, A, B, layout, tpb = case["what"], case["A"], case["B"], case["layout"], case["tpb"]
    A, B = (tuple(A), tuple(B)) if what == "ts" else (A, B)
    f = tpb // 24
    p = ctx["p"]

    def sig(x, delta):
        if what == "ts":
            return mido.MetaMessage("time_signature", numerator=x[0], denominator=x[1], time=delta * f)
        return mido.MetaMessage("key_signature", key=x, time=delta * f)
    mf = mido.MidiFile(ticks_per_beat=tpb)
    t0, t1 = mido.MidiTrack(), mido.MidiTrack()
    # layout 0: the conductor track states A twice, the note track changes to B in between;
    # layout 1: the note track states A twice, the conductor changes to B; layout 2: A, B, A all on the conductor track
    rep, oth = (t0, t1) if layout in (0, 2) else (t1, t0)
    rep.append(sig(A, 0))
    if layout == 2:
        rep.append(sig(B, 48))
        rep.append(sig(A, 48))
    else:
        rep.append(sig(A, 96))
        oth.append(sig(B, 48))
    for tr, dp in ((t0, 0), (t1, 7)):
        tr.append(mido.Message("note_on", note=p + dp, velocity=64, time=10 * f))
        tr.append(mido.Message("note_off", note=p + dp, velocity=0, time=30 * f))
    mf.tracks.extend([t0, t1])
    mf.save(path_of(ctx))
    R.flags.append("signature_ABA_across_tracks" if layout != 2 else "signature_ABA_on_one_track")
    if what == "ts" and (96 * A[0]) % A[1]:
        R.flags.append("signature_bar_not_whole_ticks")
    want = [(0, A), (48, B), (96, A)]
    for target, groups in ((0, [[0], [1]]), (1, [[0], [1]]), (0, [[0, 1]])):
        seqs = Sequence.sequences_load(path_of(ctx), track_indices=groups, meta_track_indices=[0, 1], target_meta_track_index=target)
        for gi, sq in enumerate(seqs):
            for view, ev in (("abs", lib.view_abs(sq)[0]), ("rel", lib.view_rel(sq)[0])):
                if what == "ts":
                    got = sorted((e[0], (e[5], e[6])) for e in ev if e[1] == "time_signature")
                else:
                    got = sorted((e[0], e[7]) for e in ev if e[1] == "key_signature")
                if gi != target:
                    if got:
                        R.bad("signature_on_non_meta_sequence", f"group {gi} {view}: {got}")
                    continue
                for t in (0, 47, 48, 95, 96, 200):
                    exp = [x for tt, x in want if tt <= t][-1]
                    g = [x for tt, x in got if tt <= t]
                    # the loader's default 4/4 at tick 0 precedes a file signature on tick 0 in neither view
                    if not g or g[-1] != exp:
                        R.bad("signature_in_force_wrong", f"{what} layout {layout} groups {groups} target {target} {view}: at tick {t} "
                                                          f"in force {g[-1] if g else None}, file says {exp}; loaded {got}")
                        break
    R.nontrivial = True
    R.outcome = "S" + what


def check_K(case, ctx, R):
    key, tick = case["key"], case["tick"]
    mf = mido.MidiFile(ticks_per_beat=24)
    tr = mido.MidiTrack()
    tr.append(mido.MetaMessage("key_signature", key=key, time=tick))
    tr.append(mido.Message("note_on", note=ctx["p"], velocity=64, time=1))
    tr.append(mido.Message("note_off", note=ctx["p"], velocity=0, time=5))
    mf.tracks.append(tr)
    mf.save(path_of(ctx))
    R.flags.append("keyname:" + key)
    seqs = Sequence.sequences_load(path_of(ctx))
    ev = lib.view_abs(seqs[0])[0]
    ks = [(e[0], e[7]) for e in ev if e[1] == "key_signature"]
    want = MAJOR_OF.get(key, key)
    if ks != [(tick, want)]:
        R.bad("key_signature_misread", f"file key {key} at {tick}: loaded {ks}, expected {[(tick, want)]}")
    R.nontrivial = key.endswith("m")
    R.outcome = "K"


def check_case(case, ctx):
    R = core.Res()
    try:
        {"R": check_R, "G": check_G, "K": check_K, "H": check_H, "S": check_S}[case["kind"]](case, ctx, R)
    except core.HarnessError:
        raise
    except Exception as e:  # noqa: BLE001
        import traceback
        frames = traceback.extract_tb(e.__traceback__)
        lib_frames = [f for f in frames if "/scoda/" in f.filename]
        if not lib_frames:
            raise      # the exception never passed through the library: a defect of this harness, not a violation
        tb = lib_frames[-1]
        R.bad("load_raises", f"{type(e).__name__}: {e} at {os.path.basename(tb.filename)}:{tb.lineno}")
    R.tags = {"kind": case["kind"], "key": case.get("key")}
    return R


_m = sys.modules[__name__]
run_unit = core.std_run_unit(_m)
replay = core.std_replay(_m)


def post(tot, ctx):
    if all(tot.flags.get("keyname:" + k, 0) > 0 for k in MIDO_KEYS):
        tot.flags["all_30_key_names"] = 1
