"""C09 - bar splitting follows the time signatures and conserves the music (E1)."""
import itertools
import sys

from mc import core, lib
from scoda.sequences.sequence import Sequence

ENGINE = "E1-sweep"
RULE = ("all bar plans (sequences of 1..B signatures over {default, 4/4, 3/4, 2/4, 6/8, 5/8, 2/2} on bar boundaries, key "
        "plans over 3 keys) x 1-3 tracks (note sets per bar from the onset/duration alphabet incl. notes crossing bar "
        "lines, empty side tracks, side tracks longer than the meta track, exact-multiple and one-tick-over lengths) x "
        "meta index {first, last} x both re-quantisation settings; compared with the bar-grid reference model; "
        "non-trivial = >=2 bars and (>=2 tracks or a signature change)")
SCALE = ('10-bar three-track plans; pieces of 15/16/17/31/32/33/48/64/65 bars in 4/4, 3/4, 6/8 with a 5/8 bar inside, tracks ending in the last / the last but one bar, a short and an empty track, bass notes held for eight bars under an eighth-note melody; two voices on one pitch in one track in sane and canonical order; a fragment of EVERY length 1..35 in front of a bar line, alone and with a close follower')
ASSUMPTIONS = ["note durations of the inputs are default note values, so that only boundary-cut fragments may shrink "
               "when re-quantisation is on", "signature/key events are placed only on bars that exist (start < duration)"]
REQUIRED_FLAGS = ["signature_change", "key_change", "note_crosses_bar_line", "unequal_track_lengths", "empty_track",
                  "one_tick_over", "exact_multiple", "meta_last", "requantise_on", "requantise_off", "three_tracks",
                  "fragment_shrunk_by_requantisation", "two_voices_on_one_pitch_in_canonical_order"]

SIG = {"44": (4, 4), "34": (3, 4), "24": (2, 4), "68": (6, 8), "58": (5, 8), "22": (2, 2), "716": (7, 16), "516": (5, 16), "32": (3, 2)}


def blen(sig):
    return 96 * sig[0] // sig[1]


def plans(B):
    for k in range(1, B + 1):
        for pl in itertools.product([None] + list(SIG), repeat=k):
            if None in pl[1:]:
                continue
            yield list(pl)


def grid(plan, D=None):
    """bar starts and signatures of the planned bars, extended with the last signature to cover D"""
    st, cur, sigs = [0], (4, 4), []
    for s in plan:
        if s is not None:
            cur = SIG[s]
        sigs.append(cur)
        st.append(st[-1] + blen(cur))
    if D is not None:
        while st[-1] < D:
            sigs.append(cur)
            st.append(st[-1] + blen(cur))
    return st, sigs


def context(tier, seed):
    B = 2 if tier == "quick" else 3
    return {"tier": tier, "B": B, "p": [60, 21, 107, 64][seed % 4],
            "bounds": {"max_planned_bars": B, "signatures": [None] + list(SIG), "tracks": [1, 3],
                       "onsets_per_bar": "start, +6, end-12, end-6, end-4", "durations": [6, 12, 36],
                       "plans": len(list(plans(B)))}}


def units(ctx):
    yield ("long", 0)
    for nb in (15, 16, 17, 31, 32, 33, 48, 64, 65):
        yield ("bars", nb)
    for i, _ in enumerate(plans(ctx["B"])):
        for fam in ("one", "two", "key", "three", "voices", "fragments"):
            if fam == "fragments" and i % 3:
                continue
            if fam == "three" and i % 5:
                continue
            yield (fam, i)


def alphabet(plan, p, ch=0):
    st, _ = grid(plan)
    al = []
    for b in range(len(plan)):
        s, e = st[b], st[b + 1]
        for o in sorted({s, s + 6, e - 12, e - 6, e - 4}):     # e-4 + 36 leaves a 32-tick fragment (nearest legal value is longer)
            if s <= o < e:
                for d in (6, 12, 36):
                    al.append((o, d, p, ch, 64))
    return al


def gen_cases(unit, ctx):
    fam, i = unit
    if fam == "long":
        # scale: ten bars with several signature changes, three tracks of dozens of notes, keys changing along the way
        p = ctx["p"]
        for plan in (["44"] * 10, ["34", "34", "68", "68", "44", "58", "716", "22", "24", "34"]):
            st, _ = grid(plan)
            end = st[-1]
            t0 = [[o, 12 if (o // 12) % 2 else 6, p + (o // 12) % 5, 0, 64] for o in range(0, end, 12)]
            t1 = [[o, 36 if (o // 24) % 3 == 0 else 24, p + 20 - (o // 24) % 5, 1, 50] for o in range(0, end - 36, 24)]
            t2 = [[o, 6, p - 10, 2, 40] for o in range(6, end // 2, 96)]
            keys = [None, "G", None, "D", None, None, "F#", None, None, "G"]
            for q in (True, False):
                for meta in (0, 2):
                    yield {"plan": plan, "keys": keys, "meta": meta, "q": q,
                           "tracks": [{"notes": t0, "cap": end}, {"notes": t1, "cap": None}, {"notes": t2, "cap": None}]}
        return
    if fam == "bars":
        # scale in the number of bars: nb bars (signature changes on the way); track 0 ends exactly with the last bar,
        # track 1's last note ends inside bar nb-1 / nb-2, track 2 is short, track 3 empty; a bass note held for eight bars
        # under a melody of eighth notes (its release lies hundreds of messages after the bar lines that cut it)
        p, nb = ctx["p"], i
        for base in ("44", "34", "68"):
            plan = [base] * nb
            if nb > 8:
                plan[5], plan[6] = "58", base
            st, _ = grid(plan)
            end = st[-1]
            mel = [[o, 12, p + (o // 12) % 7, 0, 64] for o in range(0, end - 12, 12)] + [[end - 12, 12, p + 3, 0, 64]]
            bass = [[st[b] + 6, st[min(b + 8, nb)] - st[b] - 12, p - 20, 0, 50] for b in range(0, nb - 1, 9)]
            t1end = st[-2] - 5
            t1 = [[o, 24, p + 12, 1, 50] for o in range(0, t1end - 24, 48)] + [[t1end - 9, 9, p + 14, 1, 51]]
            t2 = [[6, 6, p - 5, 2, 40], [st[2] + 1, 24, p - 5, 2, 41]]
            keys = [None] * nb
            keys[0], keys[min(6, nb - 1)] = "D", "A"
            for q in (True, False):
                yield {"plan": plan, "keys": keys, "meta": 0, "q": q,
                       "tracks": [{"notes": mel + bass, "cap": None}, {"notes": t1, "cap": None}, {"notes": t2, "cap": None},
                                  {"notes": [], "cap": None}]}
                yield {"plan": plan, "keys": keys, "meta": 1, "q": q,
                       "tracks": [{"notes": t1, "cap": None}, {"notes": mel, "cap": end}]}
        return
    plan = list(plans(ctx["B"]))[i]
    p = ctx["p"]
    st, sigs = grid(plan)
    end = st[-1]
    al = alphabet(plan, p)
    if fam == "fragments":
        # a note cut by a bar line leaves a fragment of EVERY length 1 ... 35 in front of the line (both re-quantisation
        # settings; the fragments are 11, 5, 7 ... ticks long, lengths no uncut input note has), alone and with a second
        # note of the same pitch following closely
        for b in range(1, len(st) - 1):
            for k in range(1, 36):
                if st[b] - k < st[b - 1]:
                    continue
                n1 = [st[b] - k, 36, p, 0, 64]
                for follower in (None, [st[b] - k + 36 + 12, 6, p, 0, 50]):
                    ns = [n1] + ([follower] if follower and follower[0] + follower[1] <= end else [])
                    for q in (True, False):
                        yield {"plan": plan, "keys": None, "meta": 0, "q": q,
                               "tracks": [{"notes": ns, "cap": end}, {"notes": [], "cap": None}]}
        return
    if fam == "voices":
        # one track with two voices (channels 1 and 0) on ONE pitch: every pair of alphabet notes that touch (one ends where
        # the other starts, same onset, same end), stored in insertion order and in the library's canonical order
        hi = alphabet(plan, p, 1)
        for a in hi:
            for b in al:
                if a[0] + a[1] == b[0] or b[0] + b[1] == a[0] or a[0] == b[0] or a[0] + a[1] == b[0] + b[1]:
                    for order in ("sane", "canonical"):
                        for q in (True, False):
                            yield {"plan": plan, "keys": None, "meta": 0, "q": q, "order": order,
                                   "tracks": [{"notes": [list(a), list(b)], "cap": end}, {"notes": [[6, 12, p + 7, 2, 50]], "cap": None}]}
        return
    if fam == "one":
        sets = [[]] + [[n] for n in al] + [list(c) for c in itertools.combinations(al, 2) if lib.well_formed(c)]
        for ns in sets:
            for capv in (None, end, end + 1):
                if not ns and capv is None:
                    continue
                for q in (True, False):
                    yield {"plan": plan, "keys": None, "tracks": [{"notes": [list(n) for n in ns], "cap": capv}], "meta": 0, "q": q}
    elif fam == "two":
        side = [{"notes": [], "cap": None}, {"notes": [[6, 12, p + 7, 1, 50]], "cap": None},
                {"notes": [[st[1] - 6, 36, p + 7, 1, 50]], "cap": None}, {"notes": [[end + 6, 12, p + 7, 1, 50]], "cap": None},
                {"notes": [], "cap": end + 1}, {"notes": [[end - 6, 6, p + 7, 1, 50]], "cap": None}]
        for ns in [[]] + [[n] for n in al]:
            for sd in side:
                for capv in (None, end):
                    if not ns and capv is None and not sd["notes"] and not sd["cap"]:
                        continue
                    for meta in (0, 1):
                        for q in (True, False):
                            yield {"plan": plan, "keys": None, "tracks": [{"notes": [list(n) for n in ns], "cap": capv}, sd],
                                   "meta": meta, "q": q}
    elif fam == "key":
        for keys in itertools.product([None, "G", "D", "F#"], repeat=len(plan)):
            if all(k is None for k in keys):
                continue
            for ns in ([], [al[0]], [al[-1]]):
                for q in (True, False):
                    yield {"plan": plan, "keys": list(keys), "tracks": [{"notes": [list(n) for n in ns], "cap": end}], "meta": 0, "q": q}
            # a side track that ended earlier and an empty one: their placeholder bars carry the key in force too
            for q in (True, False):
                for meta in (0, 2):
                    yield {"plan": plan, "keys": list(keys), "meta": meta, "q": q,
                           "tracks": [{"notes": [list(al[-1])], "cap": end}, {"notes": [[0, 6, p + 7, 1, 50]], "cap": None},
                                      {"notes": [], "cap": None}]}
    else:
        for ns in ([], [al[1]], [al[-1]]):
            for meta in (0, 2):
                for q in (True, False):
                    yield {"plan": plan, "keys": None, "meta": meta, "q": q,
                           "tracks": [{"notes": [list(n) for n in ns], "cap": end},
                                      {"notes": [[st[1] - 12, 36, p + 3, 1, 50]], "cap": None},
                                      {"notes": [], "cap": None} if ns else {"notes": [[0, 6, p + 9, 2, 40]], "cap": end + 1}]}


def check_case(case, ctx):
    R = core.Res()
    plan, keys, tracks, meta, q = case["plan"], case["keys"], case["tracks"], case["meta"], case["q"]
    durs = [max([n[0] + n[1] for n in t["notes"]] + [t["cap"] or 0]) for t in tracks]
    D = max(durs)
    st, sigs = grid(plan, D)
    nb = next(k for k in range(1, len(st)) if st[k] >= D) if D > 0 else 1
    # signature / key events only on bars that exist
    events, prev = [], None
    for b, s in enumerate(plan):
        if b < nb and s is not None and (b == 0 or st[b] < D) and SIG[s] != prev:
            events.append(("ts", st[b], SIG[s][0], SIG[s][1]))
        if s is not None:
            prev = SIG[s]
    key_at, cur = [], None
    for b in range(nb):
        if keys and b < len(keys) and keys[b] is not None and (b == 0 or st[b] < D):
            cur = keys[b]
            events.append(("ks", st[b], cur))
        key_at.append(cur)
    order = list(range(len(tracks)))
    # the meta track is track 0 of the description, placed at position `meta`
    order.remove(0)
    order.insert(meta, 0)
    seqs = []
    for ti in order:
        t = tracks[ti]
        seqs.append(lib.seq_abs(t["notes"], events if ti == 0 else [], t["cap"], ch_events=0, order=case.get("order", "sane")))
        if case.get("order") == "canonical" and len({n[3] for n in t["notes"]}) > 1:
            R.flags.append("two_voices_on_one_pitch_in_canonical_order")
    before = [lib.obs(s) for s in seqs]
    try:
        bars = Sequence.sequences_split_bars(seqs, meta_track_index=meta, quantise_note_lengths=q)
    except Exception as e:  # noqa: BLE001
        R.bad("split_bars_raises", f"{type(e).__name__}: {e}")
        return R
    # facts
    if len({sigs[k] for k in range(nb)}) > 1:
        R.flags.append("signature_change")
    if keys and len({k for k in key_at}) > 1:
        R.flags.append("key_change")
    crossing = any(any(n[0] < b_ < n[0] + n[1] for b_ in st[1:nb]) for t in tracks for n in t["notes"])
    if crossing:
        R.flags.append("note_crosses_bar_line")
    if len(set(durs)) > 1:
        R.flags.append("unequal_track_lengths")
    if any(not t["notes"] and not t["cap"] for t in tracks):
        R.flags.append("empty_track")
    if D in [x + 1 for x in st]:
        R.flags.append("one_tick_over")
    if D in st[1:]:
        R.flags.append("exact_multiple")
    if meta != 0:
        R.flags.append("meta_last")
    R.flags.append("requantise_on" if q else "requantise_off")
    if len(tracks) == 3:
        R.flags.append("three_tracks")
    R.nontrivial = nb >= 2 and (len(tracks) >= 2 or len({sigs[k] for k in range(nb)}) > 1)
    # contract
    counts = [len(b) for b in bars]
    if len(bars) != len(seqs) or len(set(counts)) != 1:
        R.bad("tracks_have_different_bar_counts", f"{counts}")
        return R
    if counts[0] != nb:
        R.bad("wrong_number_of_bars", f"{counts[0]} bars, expected {nb} for duration {D} on grid {st[:nb + 1]}")
    for pos, ti in enumerate(order):
        tb = bars[pos]
        start, rolls, total = 0, set(), 0
        for k, bar in enumerate(tb):
            try:
                o = lib.obs(bar.sequence)
            except Exception as e:  # noqa: BLE001
                R.bad("bar_unreadable", f"track {ti} bar {k}: {type(e).__name__}: {e}")
                return R
            ev, d = o["abs"]
            if o["abs"] != o["rel"]:
                R.bad("bar_views_disagree", f"track {ti} bar {k}: {o}")
            if k < nb:
                L = blen(sigs[k])
                if d != L:
                    R.bad("bar_duration_wrong", f"track {ti} bar {k} lasts {d}, signature in force {sigs[k]} needs {L}")
                tsx = [e for e in ev if e[1] == "time_signature"]
                if (bar.time_signature_numerator, bar.time_signature_denominator) != sigs[k] or \
                        len(tsx) != 1 or tsx[0][0] != 0 or (tsx[0][5], tsx[0][6]) != sigs[k]:
                    R.bad("bar_signature_wrong", f"track {ti} bar {k}: {bar.time_signature_numerator}/{bar.time_signature_denominator}, "
                                                 f"events {tsx}, in force {sigs[k]}")
                kk = bar.key_signature.value if bar.key_signature is not None else None
                if kk != key_at[k]:
                    R.bad("bar_key_wrong", f"track {ti} bar {k}: key {kk}, in force {key_at[k]}")
            pn, orph, retr, uncl = lib.pair_notes(ev)
            if orph or retr or uncl:
                R.bad("bar_ill_formed", f"track {ti} bar {k}: {orph} {retr} {uncl}")
            rolls |= {(c, p_, t + start) for (c, p_, t) in lib.roll_of_notes(pn)}
            start += d
            total += d
        if not (total >= D and (nb > len(tb) or total < D + blen(sigs[min(nb, len(sigs)) - 1]) or D == 0)):
            R.bad("bars_do_not_cover_tightly", f"track {ti}: bars last {total}, longest input {D}")
        want = lib.roll_of_notes(lib.desc_notes(tracks[ti]["notes"]))
        if not q:
            if rolls != want:
                R.bad("sounding_set_changed", f"track {ti}: missing {sorted(want - rolls)[:5]} extra {sorted(rolls - want)[:5]}")
        else:
            if not rolls <= want:
                R.bad("sounding_set_grew", f"track {ti}: extra {sorted(rolls - want)[:5]}")
            lost = want - rolls
            if lost:
                R.flags.append("fragment_shrunk_by_requantisation")
            cut = set()
            for n in tracks[ti]["notes"]:
                if any(n[0] < b_ < n[0] + n[1] for b_ in st[1:]):
                    cut |= {(n[3], n[2], t) for t in range(n[0], n[0] + n[1])}
            if not lost <= cut:
                R.bad("uncut_note_changed_by_requantisation", f"track {ti}: lost {sorted(lost - cut)[:6]}")
    after = [lib.obs(s) for s in seqs]
    if [(b["abs"], b["rel"]) for b in before] != [(a["abs"], a["rel"]) for a in after]:
        R.bad("input_changed", f"before {before} after {after}")
    R.outcome = f"b{nb}t{len(tracks)}" + ("x" if crossing else "")
    R.tags = {"q": q, "tracks": len(tracks)}
    return R


_m = sys.modules[__name__]
run_unit = core.std_run_unit(_m)
replay = core.std_replay(_m)
SAMPLE_AT = 30
