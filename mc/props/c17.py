"""C17 - equals distinguishes exactly the sequences that differ musically (E1, table-driven)."""
import itertools
import sys

from mc import core, hist, lib

ENGINE = "E1-sweep"
TICK_EVERY = 5      # every 5th case of every unit is repeated with numpy integer ticks (int64 / int32)
RULE = ("every base sequence (<=3 notes over 2 pitches x 1-2 channels, with/without a time and a key signature) x "
        "{itself, copy, every insertion order, built through the relative representation, EVERY single-attribute "
        "perturbation: pitch+-1, onset+-1, length+-1, velocity, channel, signature value, signature tick, uniform channel "
        "relabelling} x all 16 ignore-flag sets x both argument orders; expected verdict from a table on the descriptions; "
        "non-trivial = a perturbed pair")
SCALE = ('16-120 notes (long); ladder 33..1025 notes over up to ~25000 ticks with a pedal note, one-tick / one-step perturbations at the start, middle and far end, signature ticks moved by one; eight fixed insertion orders compared directly and after handing the relative view on (up to 257 notes); equal signatures on one tick on two channels in every insertion order; EVERY ordered pair of the 15 keys and of nine time signatures as operands; symmetry for every flag set also where the value is undefined; numpy integer ticks every 5th case')
ASSUMPTIONS = ["with ignore_channel set, only pairs with identical channel layout or a uniform relabelling of a "
               "single-channel sequence are demanded (the statement defines nothing else)"]
REQUIRED_FLAGS = ["perturb:pitch", "perturb:onset", "perturb:length", "perturb:velocity", "perturb:channel",
                  "perturb:ts_value", "perturb:ts_tick", "perturb:ks_value", "perturb:ks_tick", "perturb:relabel",
                  "identity:copy", "identity:order", "identity:relative", "identity:edited", "identity:history", "expected_equal_with_flag", "expected_unequal",
                  "symmetry_checked_where_value_is_undefined"]
FLAGSETS = list(itertools.product((False, True), repeat=4))  # channel, time_sig, key_sig, velocity


def bases(ctx):
    p = ctx["p"]
    c0, c1 = ctx["ch"]
    full = [(o, l, pp, cc, 64) for o in (0, 4, 8) for l in (2, 4, 6) for pp in (p, p + 1) for cc in (c0, c1)]
    mid = [(o, l, pp, cc, 64) for o in (0, 4) for l in (2, 6) for pp in (p, p + 1) for cc in (c0, c1)]
    tiny = [(o, 2, pp, cc, 64) for o in (0, 4) for pp in (p, p + 1) for cc in (c0, c1)]
    sets = [[]] + [[n] for n in full] + [list(c) for c in itertools.combinations(mid, 2)] + \
           [list(c) for c in itertools.combinations(tiny, 3)]
    if ctx["tier"] != "quick":
        sets += [list(c) for c in itertools.combinations(tiny, 4)]
    out = []
    for ns in sets:
        if not lib.well_formed(ns):
            continue
        for ev in ([], [("ts", 0, 3, 4)], [("ks", 4, "G")], [("ts", 4, 3, 4), ("ks", 0, "G")]):
            out.append((ns, ev))          # includes the completely empty sequence
    # every voice states the same signatures on its own channel: equal signature events on ONE tick on two channels
    for ns in ([], [(0, 4, p, c1, 64)], [(0, 4, p, c0, 64), (0, 4, p, c1, 64)]):
        out.append((ns, [("ts", 0, 3, 4, c0), ("ts", 0, 3, 4, c1)]))
        if len(ns) < 2:
            out.append((ns, [("ts", 0, 3, 4, c0), ("ts", 0, 3, 4, c1), ("ks", 0, "G", c1)]))
            out.append((ns, [("ks", 2, "G", c1), ("ks", 2, "G", c0), ("ts", 2, 3, 4, c1)]))
    return out


def context(tier, seed):
    p = [60, 21, 107, 64][seed % 4]
    ch = [(0, 1), (2, 9), (0, 15)][(seed // 4) % 3]
    ctx = {"p": p, "ch": ch, "tier": tier}
    ctx["bounds"] = {"bases": len(bases(ctx)), "flag_sets": 16, "argument_orders": 2, "pitches": [p, p + 1], "channels": list(ch)}
    return ctx


def units(ctx):
    return list(range(len(bases(ctx)))) + list(hist.hist_units()) + ["long"] + [("scale", k) for k in range(len(lib.LADDER))] + \
           [("sigpairs", "ks"), ("sigpairs", "ts")]


def variants(ns, ev, ctx):
    """yield (kind, notes, events, build, order)"""
    yield ("identity:self", ns, ev, "abs", None)
    yield ("identity:copy", ns, ev, "copy", None)
    yield ("identity:relative", ns, ev, "rel", None)
    items = list(range(len(ns) + len(ev)))
    if 2 <= len(items) <= 4:
        for perm in itertools.permutations(items):
            if list(perm) != items:
                yield ("identity:order", ns, ev, "perm", list(perm))
    for i, n in enumerate(ns):
        o, l, p, c, v = n
        cand = [("perturb:pitch", (o, l, p + 1, c, v)), ("perturb:pitch", (o, l, p - 1, c, v)),
                ("perturb:onset", (o + 1, l, p, c, v)), ("perturb:length", (o, l + 1, p, c, v)),
                ("perturb:velocity", (o, l, p, c, v + 1)), ("perturb:channel", (o, l, p, c + 3, v))]
        if o >= 1:
            cand.append(("perturb:onset", (o - 1, l, p, c, v)))
        if l >= 2:
            cand.append(("perturb:length", (o, l - 1, p, c, v)))
        for kind, m in cand:
            ns2 = ns[:i] + [m] + ns[i + 1:]
            if lib.well_formed(ns2):
                yield (kind, ns2, ev, "abs", None)
    for i, e in enumerate(ev):
        if e[0] == "ts":
            alts = [("perturb:ts_value", ("ts", e[1], 4, 4)), ("perturb:ts_value", ("ts", e[1], 3, 8)),
                    ("perturb:ts_tick", ("ts", e[1] + 1, 3, 4)), ("perturb:ts_tick", ("ts", e[1] + 4, 3, 4))]
        else:
            alts = [("perturb:ks_value", ("ks", e[1], "D")), ("perturb:ks_tick", ("ks", e[1] + 1, "G")),
                    ("perturb:ks_tick", ("ks", e[1] + 8, "G"))]
        for kind, e2 in alts:
            yield (kind, ns, ev[:i] + [e2] + ev[i + 1:], "abs", None)
    if len({n[3] for n in ns}) == 1 and ns and not any(len(e) > (4 if e[0] == "ts" else 3) for e in ev):
        yield ("perturb:relabel", ns, ev, "relabel", None)       # only for genuinely single-channel sequences
    if not ev:
        # only a signature is added: equal exactly under that signature's flag (also with an empty left operand)
        yield ("perturb:ts_value", ns, [("ts", 0, 3, 4)], "abs", None)
        yield ("perturb:ks_value", ns, [("ks", 0, "G")], "abs", None)


def gen_cases(unit, ctx):
    if unit == "long":
        for n in (16, 48, 120):
            ns = [list(x) for x in lib.long_desc(n, ctx["p"], (ctx["ch"][0], ctx["ch"][1], 7), 5)]
            ev = [["ts", 0, 3, 4], ["ks", 5 * n // 2, "G"]]
            for i in sorted({0, n // 2, n - 1}):
                for kind_, f in (("perturb:pitch", lambda x: [x[0], x[1], x[2] + 12, x[3], x[4]]),
                                 ("perturb:onset", lambda x: [x[0] + 1, x[1], x[2], x[3], x[4]]),
                                 ("perturb:length", lambda x: [x[0], x[1] + 1, x[2], x[3], x[4]]),
                                 ("perturb:velocity", lambda x: [x[0], x[1], x[2], x[3], 127 if x[4] != 127 else 1])):
                    vn = ns[:i] + [f(ns[i])] + ns[i + 1:]
                    yield {"base": ns, "base_ev": ev, "kind": kind_, "notes": vn, "events": ev, "build": "abs", "order": None}
            yield {"base": ns, "base_ev": ev, "kind": "identity:relative", "notes": ns, "events": ev, "build": "rel", "order": None}
            yield {"base": ns, "base_ev": ev, "kind": "identity:copy", "notes": ns, "events": ev, "build": "copy", "order": None}
        return
    if isinstance(unit, tuple) and unit[0] == "sigpairs":
        # EVERY ordered pair of signature values on one tick: all 15 x 15 keys (enharmonic twins included) and all pairs
        # over nine time signatures (pairs of equal bar length included)
        ns = [[0, 4, ctx["p"], ctx["ch"][0], 64]]
        if unit[1] == "ks":
            vals = [["ks", 2, k] for k in ("C", "G", "D", "A", "E", "B", "F#", "C#", "F", "Bb", "Eb", "Ab", "Db", "Gb", "Cb")]
        else:
            vals = [["ts", 2, n, d] for n, d in ((3, 4), (6, 8), (4, 4), (2, 2), (6, 4), (12, 8), (3, 8), (2, 4), (4, 8))]
        for a in vals:
            for b in vals:
                kind_ = "identity:copy" if a == b else ("perturb:ks_value" if unit[1] == "ks" else "perturb:ts_value")
                yield {"base": ns, "base_ev": [a], "kind": kind_, "notes": ns, "events": [b], "build": "abs" if a != b else "copy", "order": None}
                if a != b:
                    yield {"base": ns, "base_ev": [["ts", 0, 5, 4], a], "kind": kind_, "notes": ns, "events": [["ts", 0, 5, 4], b], "build": "rel",
                           "order": None}
        return
    if isinstance(unit, tuple) and unit[0] == "scale":
        # scale ladder: 33 ... 1025 notes spread over thousands of ticks, one pedal note of >1000 ticks; one-tick / one-step
        # perturbations at the start, the middle and the far end; eight fixed insertion orders, each compared directly
        # and after handing the relative view on
        n = lib.LADDER[unit[1]]
        c0, c1 = ctx["ch"]
        ns = [list(x) for x in lib.long_desc(n, ctx["p"], (c0, c1, 7), 25, lens=(3, 9, 5, 14))] + [[1, 25 * n + 200, ctx["p"] - 9, c0, 77]]
        ev = [["ts", 0, 3, 4], ["ks", 25 * n // 2, "G"], ["ts", 25 * n + 8, 4, 4]]
        for i in sorted({0, n // 2, n - 1, n}):
            for kind_, f in (("perturb:pitch", lambda x: [x[0], x[1], x[2] + 12, x[3], x[4]]),
                             ("perturb:onset", lambda x: [x[0] + 1, x[1], x[2], x[3], x[4]]),
                             ("perturb:length", lambda x: [x[0], x[1] + 1, x[2], x[3], x[4]]),
                             ("perturb:length", lambda x: [x[0], x[1] - 1, x[2], x[3], x[4]]),
                             ("perturb:velocity", lambda x: [x[0], x[1], x[2], x[3], 127 if x[4] != 127 else 1])):
                vn = ns[:i] + [f(ns[i])] + ns[i + 1:]
                yield {"base": ns, "base_ev": ev, "kind": kind_, "notes": vn, "events": ev, "build": "abs", "order": None}
        for j, (kind_, d) in enumerate((("perturb:ks_tick", 1), ("perturb:ts_tick", 1), ("perturb:ts_tick", -1))):
            e2 = [list(e) for e in ev]
            e2[1 if j == 0 else 2][1] += d
            yield {"base": ns, "base_ev": ev, "kind": kind_, "notes": ns, "events": e2, "build": "abs", "order": None}
        yield {"base": ns, "base_ev": ev, "kind": "identity:relative", "notes": ns, "events": ev, "build": "rel", "order": None}
        m = len(ns) + len(ev)
        if n <= 257:
            orders = {"reverse": list(range(m))[::-1], "halves": [x for pair in zip(range(m // 2), range(m // 2, m)) for x in pair] +
                      ([m - 1] if m % 2 else []), "voices": sorted(range(m), key=lambda i: (i % 3, i))}
            for k in (7, 11, 13, 29, 31):
                while __import__("math").gcd(k, m) != 1:
                    k += 2
                orders[f"stride{k}"] = [(i * k) % m for i in range(m)]
            for nm, order in orders.items():
                for build in ("perm", "perm_rel"):
                    yield {"base": ns, "base_ev": ev, "kind": "identity:order", "notes": ns, "events": ev, "build": build,
                           "order": order}
        return
    if isinstance(unit, tuple):
        for h in hist.hist_of_unit(unit):
            yield {"seed": unit[1], "build": unit[2], "hist": h, "kind": "identity:history"}
        return
    ns, ev = bases(ctx)[unit]
    # the same events reached by editing another sequence in place through messages_abs() (pitch / onset edits that
    # change the canonical order), with no normalising operation before the comparison
    for i, n in enumerate(ns):
        for kind, m in (("pitch", (n[0], n[1], n[2] + 7, n[3], n[4])), ("pitch", (n[0], n[1], n[2] - 7, n[3], n[4])),
                        ("onset", (n[0] + 9, n[1], n[2], n[3], n[4]))):
            start = ns[:i] + [m] + ns[i + 1:]
            if lib.well_formed(start):
                yield {"base": [list(x) for x in ns], "base_ev": [list(e) for e in ev], "kind": "identity:edited",
                       "notes": [list(x) for x in start], "events": [list(e) for e in ev], "build": "edit", "order": [i, kind]}
    for kind, ns2, ev2, build, order in variants(ns, ev, ctx):
        yield {"base": [list(n) for n in ns], "base_ev": [list(e) for e in ev], "kind": kind,
               "notes": [list(n) for n in ns2], "events": [list(e) for e in ev2], "build": build, "order": order}


def construct(notes, events, build, order, ch_events=0):
    if build == "rel":
        return lib.seq_rel(notes, events)
    if build == "edit":
        from scoda.enumerations.message_type import MessageType as MT
        i, what = order
        start = [list(x) for x in notes]
        s = lib.seq_abs(start, events)
        # `notes` is the starting point; the caller passes the target (base) separately through `edit_to`
        return s
    if build in ("perm", "perm_rel"):
        from scoda.sequences.sequence import Sequence
        s = Sequence()
        items = [("n", n) for n in notes] + [("e", e) for e in events]
        for i in order:
            kind, x = items[i]
            if kind == "n":
                s.add_absolute_message(lib.on(x[0], x[2], x[3], x[4]))
                s.add_absolute_message(lib.off(x[0] + x[1], x[2], x[3]))
            else:
                s.add_absolute_message(lib.event_msgs([x])[0])
        if build == "perm_rel":
            # the relative view of the built sequence handed on as a sequence of its own
            return Sequence(relative_sequence=s.rel.copy())
        return s
    s = lib.seq_abs(notes, events, ch_events=ch_events)
    if build == "copy":
        return s.copy()
    return s


def canon(notes, events, chan_of_events, fl):
    ic, its, iks, iv = fl
    N = sorted((n[0], n[1], n[2], None if ic else n[3], None if iv else n[4]) for n in notes)
    E = sorted((e[0], e[1], tuple(e[2:]), None if ic else chan_of_events) for e in events
               if not (e[0] == "ts" and its) and not (e[0] == "ks" and iks))
    return N, E


def check_history_case(case, ctx):
    R = core.Res()
    live = hist.live_case(case, R, ctx["p"], *ctx["ch"], hp=ctx["p"] - 20)
    if live is None:
        return R
    a, notes, events, dur = live
    R.flags.append("identity:history")
    # the rebuilt twin carries its signature events on the channel the live object carries them on (a history may have
    # re-assigned it: set_channel); several channels cannot be expressed by the description and are skipped
    ev_ch = sorted({e[2] for e in lib.non_note(lib.view_abs(a)[0])})
    if len(ev_ch) > 1:
        R.outcome = "history_events_on_several_channels"
        return R
    ch_ev = ev_ch[0] if ev_ch else 0
    b = lib.seq_abs(notes, events, dur, ch_events=ch_ev)
    n = 0
    for fl in FLAGSETS:
        for x, y, nm in ((a, b, "live.equals(rebuilt)"), (b, a, "rebuilt.equals(live)")):
            got = x.equals(y, ignore_channel=fl[0], ignore_time_signature=fl[1], ignore_key_signature=fl[2], ignore_velocity=fl[3])
            n += 1
            if got is not True:
                R.bad("reports_unequal_but_same:history", f"{nm} flags {fl} returned {got}; content {notes} {events}")
    if notes:
        c = lib.seq_abs([[notes[0][0], notes[0][1], notes[0][2] + 1] + list(notes[0][3:])] + notes[1:], events, dur, ch_events=ch_ev)
        if lib.well_formed([[notes[0][0], notes[0][1], notes[0][2] + 1] + list(notes[0][3:])] + notes[1:]) and (a.equals(c) or c.equals(a)):
            R.bad("reports_equal_but_differs:history", f"a pitch differs yet equals is True; content {notes}")
    R.transitions = R.validated = n
    R.outcome = "identity:history"
    R.tags = {"kind": "identity:history"}
    return R


def check_case(case, ctx):
    if "hist" in case:
        return check_history_case(case, ctx)
    R = core.Res()
    bn, be, kind = case["base"], case["base_ev"], case["kind"]
    a = construct(bn, be, "abs", None)
    if case["build"] == "relabel":
        a = construct(bn, be, "abs", None, ch_events=bn[0][3])   # a genuinely single-channel sequence
        newc = bn[0][3] + 5
        vn = [[n[0], n[1], n[2], newc, n[4]] for n in bn]
        b = construct(vn, case["events"], "abs", None, ch_events=newc)
        vev_ch = newc
    else:
        vn = case["notes"]
        b = construct(vn, case["events"], case["build"], case["order"])
        vev_ch = 0
        if case["build"] == "edit":
            from scoda.enumerations.message_type import MessageType as MT
            i, what = case["order"]
            src, dst = vn[i], bn[i]
            for m in b.messages_abs():
                if m.message_type in (MT.NOTE_ON, MT.NOTE_OFF) and m.note == src[2] and m.channel == src[3] and \
                        m.time in (src[0], src[0] + src[1]):
                    m.note = dst[2]
                    m.time = dst[0] if m.message_type is MT.NOTE_ON else dst[0] + dst[1]
            vn = bn      # after the edit the variant holds exactly the base's events
    R.flags.append(kind)
    R.nontrivial = kind.startswith("perturb")
    same_layout = [n[3] for n in sorted(bn)] == [n[3] for n in sorted(vn)] and vev_ch == 0
    n_checked = 0
    for fl in FLAGSETS:
        if fl[0] and not (same_layout or kind == "perturb:relabel"):
            # channel flag with a non-uniform channel change: the value is not defined by the statement, symmetry is
            try:
                g1 = a.equals(b, ignore_channel=fl[0], ignore_time_signature=fl[1], ignore_key_signature=fl[2], ignore_velocity=fl[3])
                g2 = b.equals(a, ignore_channel=fl[0], ignore_time_signature=fl[1], ignore_key_signature=fl[2], ignore_velocity=fl[3])
                n_checked += 1
                R.flags.append("symmetry_checked_where_value_is_undefined")
                if g1 is not g2:
                    R.bad("not_symmetric", f"flags (channel,ts,ks,velocity)={fl}: a.equals(b)={g1}, b.equals(a)={g2}; base {bn} {be} "
                                           f"variant {vn} {case['events']}")
            except Exception as e:  # noqa: BLE001
                R.bad("equals_raises", f"flags {fl}: {type(e).__name__}: {e}")
            continue
        want = canon(bn, be, bn[0][3] if kind == "perturb:relabel" else 0, fl) == canon(vn, case["events"], vev_ch, fl)
        for x, y, nm in ((a, b, "a.equals(b)"), (b, a, "b.equals(a)")):
            try:
                got = x.equals(y, ignore_channel=fl[0], ignore_time_signature=fl[1], ignore_key_signature=fl[2],
                               ignore_velocity=fl[3])
            except Exception as e:  # noqa: BLE001
                R.bad("equals_raises", f"{nm} flags {fl}: {type(e).__name__}: {e}")
                continue
            n_checked += 1
            if got is not want:
                sig = ("reports_equal_but_differs:" if got else "reports_unequal_but_same:") + kind.split(":")[1]
                R.bad(sig, f"{nm} with flags (channel,ts,ks,velocity)={fl} returned {got}, expected {want}; "
                           f"base {bn} {be} variant {vn} {case['events']}")
        if want and any(fl) and kind.startswith("perturb"):
            R.flags.append("expected_equal_with_flag")
        if not want:
            R.flags.append("expected_unequal")
    try:
        if (a == b) is not a.equals(b) or (b == a) is not b.equals(a):
            R.bad("eq_operator_disagrees_with_equals", f"{bn} {vn}")
        if not a.equals(a) or not b.equals(b) or not (a == a):
            R.bad("not_reflexive", f"{bn} {vn}")
    except Exception as e:  # noqa: BLE001
        R.bad("equals_raises", f"{type(e).__name__}: {e}")
    R.transitions = n_checked + 5
    R.validated = n_checked
    R.outcome = kind
    R.tags = {"kind": kind}
    return R


_m = sys.modules[__name__]
run_unit = core.std_run_unit(_m)
replay = core.std_replay(_m)
SAMPLE_AT = 9
