"""C12 - saving to MIDI and loading back returns the same music (E1, through real files)."""
import itertools
import os
import shutil
import sys
import tempfile

from mc import core, hist, lib
from scoda.sequences.sequence import Sequence

ENGINE = "E1-sweep"
TICK_EVERY = 5      # every 5th case of every unit is repeated with numpy integer ticks (int64 / int32)
RULE = ("all lists of 1-3 well-formed single-channel sequences (note sets over an interval/pitch/velocity alphabet with "
        "leading rests, simultaneous events and abutting repeats; signature events from all 15 keys and 5 time signatures "
        "(plus every signature over 16 numerators x denominators 1..128, first / in the middle / on another sequence) "
        "on lattice ticks, distributed over the sequences without contradiction; program changes) saved with "
        "sequences_save to a real file and re-loaded with sequences_load; non-trivial = >=2 events on one tick or a "
        "signature after tick 0")
SCALE = ('16-120 notes (long); ladder 33..1025 notes under one pedal note held from start to end, no time signature at tick 0, five insertion orders (voices, halves, stride 7 / 31, reverse); signatures read through both views; a settings file with another ppqn activated after import; numpy integer ticks every 5th case')
ASSUMPTIONS = ["mido's byte-level reading/writing is trusted", "channels are not compared (the writer emits channel 0)",
               "total duration / trailing rests are not part of the statement"]
REQUIRED_FLAGS = ["after_history", "leading_rest", "simultaneous_events", "abutting_repeat", "signature_after_tick_0", "all_fifteen_keys",
                  "program_change", "control_change", "three_sequences", "default_signature_inserted", "signature_on_non_first_sequence",
                  "settings_file_activated_after_import", "signature_bar_not_whole_ticks"]

KEYS = ["C", "G", "D", "A", "E", "B", "F#", "C#", "F", "Bb", "Eb", "Ab", "Db", "Gb", "Cb"]
TS = [(4, 4), (3, 4), (6, 8), (2, 2), (5, 8)]
# every time signature over these numerators x denominators (bars that are no whole number of ticks included)
DENOMS = [1, 2, 4, 8, 16, 32, 64, 128]
NUMERS = [1, 2, 3, 4, 5, 6, 7, 9, 10, 12, 14, 16, 18, 20, 24, 32]
IV = [(0, 5), (0, 10), (3, 7), (5, 5), (10, 1), (10, 20), (29, 1)]


def context(tier, seed):
    base = "/dev/shm" if os.path.isdir("/dev/shm") and os.access("/dev/shm", os.W_OK) else None
    return {"tier": tier, "p": [60, 21, 107, 0][seed % 4], "tmpdir": tempfile.mkdtemp(prefix="scoda_c12_", dir=base),
            "bounds": {"intervals": IV, "velocities": [1, 64, 127], "keys": KEYS, "time_signatures": TS,
                       "sequences": [1, 3], "signature_ticks": [0, 3, 5, 10, 30]}}


def notes_alpha(ctx, vels=(1, 64, 127), pitches=None):
    p = ctx["p"]
    return [(o, l, pp, 0, v) for (o, l) in IV for pp in (pitches or (p, p + 1)) for v in vels]


SIGCFG = [
    [], [("ts", 0, 3, 4)], [("ts", 5, 3, 4)], [("ts", 0, 6, 8), ("ts", 10, 2, 2)], [("ks", 3, "G"), ("ts", 3, 5, 8)],
    [("ks", 0, "F#")], [("pc", 0, 5)], [("pc", 3, 5), ("ts", 5, 3, 4)], [("ts", 30, 3, 4)], [("ks", 10, "Cb"), ("ks", 30, "C")],
    [("ts", 0, 4, 4)], [("ts", 0, 4, 4), ("ts", 5, 4, 4)],
    [("cc", 3, 64, 127)], [("cc", 0, 64, 100), ("ks", 5, "Bb"), ("cc", 10, 64, 0)], [("ks", 5, "E"), ("ts", 10, 2, 2), ("pc", 10, 3)],
    [("ks", 3, "Ab")], [("ts", 3, 5, 8), ("ks", 10, "Db")],
    # different signatures of equal bar length following each other
    [("ts", 0, 3, 4), ("ts", 10, 6, 8)], [("ts", 0, 4, 4), ("ts", 5, 2, 2)], [("ts", 0, 2, 2), ("ts", 5, 4, 4), ("ts", 30, 8, 8)],
    [("ts", 3, 6, 4), ("ts", 10, 12, 8)],
]


def units(ctx):
    al = notes_alpha(ctx)
    for i in range(len(al)):
        yield ("one", i)
    for k in range(len(KEYS)):
        yield ("keys", k)
    small = notes_alpha(ctx, vels=(1, 127), pitches=(ctx["p"],))
    for i in range(len(small) + 1):
        yield ("two", i)
    for i in range(4):
        yield ("three", i)
    for i in range(len(_al3(ctx))):
        yield ("triples", i)
    yield from hist.hist_units()
    yield ("long", 0)
    yield ("reload", 0)
    for di in range(len(DENOMS)):
        yield ("allsigs", di)
    for k in range(len(lib.LADDER)):
        yield ("scale", k)
    if ctx["tier"] != "quick":
        for t1 in range(0, 31):
            yield ("ticks", t1)


def _al3(ctx):
    return notes_alpha(ctx, vels=(1, 127), pitches=(ctx["p"],) if ctx["tier"] == "quick" else None)


def S(notes, events):
    return {"notes": [list(n) for n in notes], "events": [list(e) for e in events]}


def gen_cases(unit, ctx):
    if unit[0] == "hist":
        for h in hist.hist_of_unit(unit):
            yield {"seed": unit[1], "build": unit[2], "hist": h}
        return
    kind, i = unit
    if kind == "allsigs":
        p, d = ctx["p"], DENOMS[i]
        for n in NUMERS:
            for ns in ([], [(0, 10, p, 0, 64), (29, 1, p + 1, 0, 1)]):
                yield {"seqs": [S(ns, [("ts", 0, n, d)])]}
                yield {"seqs": [S(ns, [("ts", 0, 3, 8), ("ts", 10, n, d), ("ts", 30, 5, 4)])]}
                yield {"seqs": [S(ns, [("ts", 30, 5, 4)]), S([(5, 5, p + 2, 0, 9)], [("ts", 3, n, d), ("ks", 3, "F#")])]}
        return
    if kind == "reload":
        p = ctx["p"] if ctx["p"] <= 100 else 100
        for ppqn in (48, 12, 480):
            yield {"seqs": [S([(0, 24, p, 0, 80), (36, 12, p + 2, 0, 64)], [("ts", 0, 3, 4), ("ks", 0, "D"), ("ts", 72, 4, 4)]),
                            S([(6, 6, p + 5, 0, 50)], [("ks", 72, "G")])], "reload_ppqn": ppqn}
            yield {"seqs": [S([(0, 10, p, 0, 1)], [])], "reload_ppqn": ppqn}
        return
    if kind == "long":
        p = ctx["p"] if ctx["p"] <= 100 else 100
        for n in (16, 48, 120):
            for step in (5, 37):
                ns = [(o, l, pp, 0, v) for (o, l, pp, cc, v) in lib.long_desc(n, p, (0,), step)]
                yield {"seqs": [S(ns, [("ts", 0, 3, 4), ("ks", step * n // 2, "Gb"), ("ts", step * n, 7, 8)])]}
                yield {"seqs": [S(ns[0::2], [("ks", 0, "A")]), S(ns[1::2], [("ts", step * 3, 5, 4)]), S([], [("ts", step * n - 1, 2, 2)])]}
        return
    if kind == "scale":
        # scale ladder: 33 ... 1025 notes under one pedal note held from start to end; no time signature at tick 0 (the
        # loader supplies 4/4 in front of a long meta sequence); voices inserted one after the other / interleaved
        p = ctx["p"] if ctx["p"] <= 100 else 100
        n = lib.LADDER[i]
        ns = [(o, l, pp, 0, v) for (o, l, pp, cc, v) in lib.long_desc(n, p, (0,), 5)]
        pedal = [(1, 5 * n + 20, p + 7, 0, 55)]
        yield {"seqs": [S(ns + pedal, [("ts", 96, 3, 4), ("ks", 5 * n // 2, "Gb")])], "orders": ["sane"]}
        if n <= 257:
            for order in ("voices", "halves", "stride7", "stride31", "reverse"):
                yield {"seqs": [S(ns, [("ts", 96, 3, 4)]), S(ns[1::2] + pedal, [])], "orders": [order, order]}
        yield {"seqs": [S(ns[0::2], [("ks", 0, "A")]), S(ns[1::2] + pedal, [("ts", 15, 5, 4)]), S([], [("ts", 5 * n - 1, 2, 2)])]}
        return
    if kind == "ticks":
        # thorough: a time signature at tick i and a key signature / second time signature at EVERY lattice tick
        p = ctx["p"]
        for ns in ([], [(0, 10, p, 0, 64)], [(3, 7, p, 0, 1), (10, 20, p + 1, 0, 127)], [(29, 1, p, 0, 64)]):
            for t2 in range(0, 31):
                for tsv in TS[1:3]:
                    yield {"seqs": [S(ns, [("ts", i, tsv[0], tsv[1]), ("ks", t2, KEYS[(i + t2) % 15])])]}
                    if t2 != i:
                        yield {"seqs": [S(ns, [("ts", i, tsv[0], tsv[1])]), S([(5, 5, p + 2, 0, 9)], [("ts", t2, 5, 8), ("ks", t2, "F#")])]}
        return
    al = notes_alpha(ctx)
    if kind == "one":
        if i == 0:
            for sc in SIGCFG:
                if sc:
                    yield {"seqs": [S([], sc)]}
        for sc in SIGCFG:
            yield {"seqs": [S([al[i]], sc)]}
        for j in range(i + 1, len(al)):
            if lib.well_formed([al[i], al[j]]):
                for sc in SIGCFG:
                    yield {"seqs": [S([al[i], al[j]], sc)]}
    elif kind == "keys":
        key = KEYS[i]
        p = ctx["p"]
        for t in (0, 3, 10):
            for ns in ([], [(0, 10, p, 0, 64)], [(3, 7, p, 0, 64), (10, 1, p, 0, 1)]):
                yield {"seqs": [S(ns, [("ks", t, key)])]}
                yield {"seqs": [S(ns, []), S([(5, 5, p + 2, 0, 9)], [("ks", t, key)])]}
                for k2 in (KEYS[(i + 1) % 15], KEYS[(i + 7) % 15]):
                    yield {"seqs": [S(ns, [("ks", t, key), ("ks", t + 20, k2)])]}
    elif kind == "two":
        small = [[]] + [[n] for n in notes_alpha(ctx, vels=(1, 127), pitches=(ctx["p"],))]
        a = small[i]
        dist = [([], []), ([("ts", 0, 3, 4)], []), ([], [("ts", 0, 3, 4)]), ([("ts", 0, 3, 4)], [("ks", 5, "Eb")]),
                ([("ks", 5, "Eb")], [("ts", 10, 6, 8)]), ([("ts", 5, 5, 8)], [("ts", 5, 5, 8)]), ([], [("ts", 3, 2, 2), ("ks", 3, "B")]),
                ([("pc", 0, 3)], [("pc", 5, 9), ("ts", 10, 3, 4)]),
                # a signature that returns (A - B - A) with the B in between living on the other sequence
                ([("ts", 0, 3, 4), ("ts", 30, 3, 4), ("ks", 0, "E"), ("ks", 30, "E")], [("ts", 10, 2, 4), ("ks", 10, "Ab")]),
                ([("ts", 10, 2, 4), ("ks", 10, "Ab")], [("ts", 0, 3, 4), ("ts", 30, 3, 4), ("ks", 0, "E"), ("ks", 30, "E")]),
                ([("ks", 0, "G"), ("ts", 5, 6, 8)], [("ks", 3, "G"), ("ts", 10, 6, 8)])]
        for b in small:
            for ea, eb in dist:
                if a or b or ea or eb:
                    yield {"seqs": [S(a, ea), S([(n[0], n[1], n[2] + 3, 0, 100) for n in b], eb)]}
    elif kind == "three":
        p = ctx["p"]
        opts = [[], [(0, 5, p, 0, 64)], [(10, 20, p, 0, 127)], [(3, 7, p, 0, 1), (10, 1, p, 0, 64)]]
        a = opts[i]
        for b in opts:
            for c in opts:
                for ea, eb, ec in (([], [], []), ([("ts", 0, 3, 4)], [("ks", 0, "D")], [("ts", 10, 4, 4)]),
                                   ([], [], [("ts", 5, 6, 8), ("ks", 5, "Ab")]), ([("ks", 3, "A")], [("ks", 3, "A")], [])):
                    yield {"seqs": [S(a, ea), S(b, eb), S(c, ec)]}
    else:
        al3 = _al3(ctx)
        for j in range(i + 1, len(al3)):
            for k in range(j + 1, len(al3)):
                ns = [al3[i], al3[j], al3[k]]
                if lib.well_formed(ns):
                    for sc in (SIGCFG[0], SIGCFG[4]):
                        yield {"seqs": [S(ns, sc)]}


def cleanup(ctx):
    shutil.rmtree(ctx.get("tmpdir", ""), ignore_errors=True)


def in_force(sig, ticks, default_ts=(4, 4)):
    """sig: list of ('ts', t, n, d) / ('ks', t, key); returns {tick: (ts, key)}"""
    out = {}
    for t in ticks:
        ts_ = default_ts
        ks_ = None
        for e in sorted(sig, key=lambda e: e[1]):
            if e[1] <= t:
                if e[0] == "ts":
                    ts_ = (e[2], e[3])
                elif e[0] == "ks":
                    ks_ = e[2]
        out[t] = (ts_, ks_)
    return out


def check_case(case, ctx):
    if case.get("reload_ppqn"):
        # the application activates its own settings file (another resolution) AFTER the library has been imported; the
        # default file is activated again afterwards
        import json
        from pathlib import Path
        from scoda.settings import settings
        default_path = Path(settings.__file__).parent.parent.joinpath("config/default_settings.json")
        custom = json.load(open(default_path))
        custom["general_settings"]["ppqn"] = case["reload_ppqn"]
        custom_path = os.path.join(ctx["tmpdir"], f"settings_{os.getpid()}.json")
        json.dump(custom, open(custom_path, "w"))
        settings.load_from_file(Path(custom_path))
        try:
            R = _check_case({k: v for k, v in case.items() if k != "reload_ppqn"}, ctx)
            R.flags.append("settings_file_activated_after_import")
            return R
        finally:
            settings.load_from_file()
    return _check_case(case, ctx)


def _check_case(case, ctx):
    R = core.Res()
    if "hist" in case:
        # a live sequence with a history (earlier conversions to a MIDI track, in-place edits, aliased messages, ...)
        live = hist.live_case(case, R, ctx["p"] if ctx["p"] > 0 else 60, 0, 1, hp=30)
        if live is None:
            return R
        obj, notes, events, _ = live
        seqs = [{"notes": [[n[0], n[1], n[2], 0, n[4]] for n in notes], "events": [list(e) for e in events]}]
        objs = [obj]
    else:
        seqs = case["seqs"]
        orders = case.get("orders")
        objs = [lib.seq_abs(s["notes"], s["events"], order=orders[k]) if orders else
                lib.seq_abs(s["notes"], s["events"]) if k % 2 == 0 else lib.seq_rel(s["notes"], s["events"])
                for k, s in enumerate(seqs)]
        if sum(len(s["notes"]) for s in seqs) >= 33:
            R.flags.append("scale_ladder")
    path = os.path.join(ctx["tmpdir"], f"{os.getpid()}.mid")
    all_sig = [tuple(e) for s in seqs for e in s["events"] if e[0] in ("ts", "ks")]
    ticks = sorted({0} | {e[1] for e in all_sig} | {x for s in seqs for n in s["notes"] for x in (n[0], n[0] + n[1])})
    # facts
    per_tick = {}
    for s in seqs:
        for n in s["notes"]:
            per_tick[n[0]] = per_tick.get(n[0], 0) + 1
            per_tick[n[0] + n[1]] = per_tick.get(n[0] + n[1], 0) + 1
        for e in s["events"]:
            per_tick[e[1]] = per_tick.get(e[1], 0) + 1
    if any(v > 1 for v in per_tick.values()):
        R.flags.append("simultaneous_events")
        R.nontrivial = True
    if any(e[1] > 0 for e in all_sig):
        R.flags.append("signature_after_tick_0")
        R.nontrivial = True
    if any(s["notes"] and min(n[0] for n in s["notes"]) > 0 for s in seqs):
        R.flags.append("leading_rest")
    if any(a[2] == b[2] and a[0] + a[1] == b[0] for s in seqs for a in s["notes"] for b in s["notes"]):
        R.flags.append("abutting_repeat")
    if any(e[0] == "pc" for s in seqs for e in s["events"]):
        R.flags.append("program_change")
    if any(e[0] == "cc" for s in seqs for e in s["events"]):
        R.flags.append("control_change")
    if len(seqs) == 3:
        R.flags.append("three_sequences")
    if not any(e[0] == "ts" and e[1] == 0 for e in all_sig):
        R.flags.append("default_signature_inserted")
    if any(e[0] in ("ts", "ks") for s in seqs[1:] for e in s["events"]):
        R.flags.append("signature_on_non_first_sequence")
    for e in all_sig:
        if e[0] == "ks":
            R.flags.append("key:" + e[2])
        elif (96 * e[2]) % e[3]:
            R.flags.append("signature_bar_not_whole_ticks")
    try:
        Sequence.sequences_save(objs, path)
        loaded = Sequence.sequences_load(path)
    except Exception as e:  # noqa: BLE001
        R.bad("save_or_load_raises", f"{type(e).__name__}: {e}")
        return R
    if len(loaded) != len(seqs):
        R.bad("wrong_number_of_sequences", f"saved {len(seqs)}, loaded {len(loaded)}")
        return R
    for k, (s, l) in enumerate(zip(seqs, loaded)):
        o = lib.obs(l)
        for view in ("abs", "rel"):
            pn, orph, retr, uncl = lib.pair_notes(o[view][0])
            got = sorted((n[1], n[2], n[3] - n[2], n[4]) for n in pn)
            want = sorted((n[2], n[0], n[1], n[4]) for n in s["notes"])
            if got != want or orph or retr or uncl:
                R.bad("notes_differ_after_round_trip", f"sequence {k} {view}: got (pitch,onset,len,vel) {got} expected {want}; "
                                                       f"orphans {orph} unclosed {uncl}")
    o0 = lib.obs(loaded[0])
    want_f = in_force(all_sig, ticks)
    for view in ("abs", "rel"):
        ev = o0[view][0]
        got_sig = [("ts", e[0], e[5], e[6]) for e in ev if e[1] == "time_signature"] + \
                  [("ks", e[0], e[7]) for e in ev if e[1] == "key_signature"]
        got_f = in_force(got_sig, ticks, default_ts=None)
        if want_f != got_f:
            bad = [(t, want_f[t], got_f[t]) for t in ticks if want_f[t] != got_f[t]][:3]
            R.bad("signature_in_force_differs", f"{view} view (tick, saved, loaded): {bad}; meta events {got_sig}")
    for k, l in enumerate(loaded[1:], 1):
        if any(e[1] in ("time_signature", "key_signature") for e in lib.view_abs(l)[0]):
            R.bad("signature_on_non_meta_sequence", f"sequence {k}")
    R.outcome = f"s{len(seqs)}" + ("sig" if all_sig else "")
    R.tags = {"n_seqs": len(seqs)}
    return R


_m = sys.modules[__name__]
run_unit = core.std_run_unit(_m)
replay = core.std_replay(_m)


def post(tot, ctx):
    if all(tot.flags.get("key:" + k, 0) > 0 for k in KEYS):
        tot.flags["all_fifteen_keys"] = 1
