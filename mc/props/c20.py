"""C20 - key and circle-of-fifths tables are algebraically consistent (E1, complete finite domain)."""
from scoda.misc.music_theory import Key, CircleOfFifths, MusicMapping, Note

ENGINE = "E1-sweep"
FRESH_WORKERS = True     # every unit runs in a newly forked child: the tables and any cache start from the import state
RULE = ("complete enumeration: 15 keys x every interval in [-300,300] and 48 far ones (+-10^6+k, +-2^31+k); all interval pairs in [-13,13] "
        "and all pairs over the far summands (+-64, +-127, +-128, +-200, +-1000) x ([-13,13] and the far summands) per key; "
        "all 128x128 pitch pairs; 128 x [-12,12] for from_distance - repeated after each of 9 call histories (preludes) "
        "executed first in a fresh process: nothing, key guessing on a sequence, from_distance before anything else "
        "(all / even pitches only), get_position first, distances in reverse order first, transposing sequences and "
        "bars with keys, tokeniser annotations, repeated transposition chains; distinct = distinct (prelude, argument "
        "tuple); non-trivial = all but interval 0 / a == b")
SCALE = ("all 128 x 128 pitch pairs and all intervals -36..36 handed over as numpy integers of five widths (int64, int32, int16, uint8, int8); "
         "key transposition reached through the outer objects: EVERY ordered pair of the 15 keys as two key signatures of one sequence and as "
         "(bar key, key message inside the bar) x every interval -12..12")
ASSUMPTIONS = ["tonic table and major-scale pattern of the oracle are written independently in this file"]
REQUIRED_FLAGS = ["transpose_multiple_of_12", "transpose_negative", "enharmonic_key_transposed", "cof_tritone", "transpose_beyond_pitch_range", "numpy_integer_arguments", "key_transposed_through_objects"] + \
                 ["prelude:" + x for x in ("none", "key_guess", "from_distance_first", "tokeniser_info")]

TONIC = {"C": 0, "G": 7, "D": 2, "A": 9, "E": 4, "B": 11, "F#": 6, "C#": 1, "F": 5, "Bb": 10, "Eb": 3, "Ab": 8,
         "Db": 1, "Gb": 6, "Cb": 11}
MAJOR = (0, 2, 4, 5, 7, 9, 11)
KEYS = list(TONIC)


def context(tier, seed):
    return {"bounds": {"keys": 15, "intervals": [-300, 300], "far_intervals": len(FAR), "pair_intervals": [-13, 13],
                       "far_summands": BIG, "pitches": 128,
                       "from_distance": [-12, 12]}}


FAR = [s * (b + k) for b in (10 ** 6, 2 ** 31) for k in range(12) for s in (1, -1)]
BIG = [64, -64, 127, -127, 128, -128, 200, -200, 1000, -1000]
PRELUDES = ["none", "key_guess", "from_distance_first", "from_distance_even_first", "get_position_first",
            "reverse_distance_first", "transpose_objects", "tokeniser_info", "transpose_chain"]


def prelude(name):
    """public calls made before the enumeration, in a fresh process"""
    if name == "key_guess":
        from mc import lib
        for notes in ([(0, 6, 62, 0, 64), (6, 6, 66, 0, 64), (12, 6, 69, 0, 64)], [(0, 6, 61, 0, 64)], []):
            lib.seq_abs(notes, [], 24).rel.get_key_signature_guess()
            lib.seq_rel(notes, [("ks", 0, "Eb")], 24).rel.get_key_signature_guess()
    elif name == "from_distance_first":
        for a in range(128):
            for d in range(-5, 7):
                CircleOfFifths.from_distance(a, d)
    elif name == "from_distance_even_first":
        for a in range(0, 128, 2):
            CircleOfFifths.from_distance(a, 1)
    elif name == "get_position_first":
        for a in range(127, -1, -1):
            CircleOfFifths.get_position(a)
    elif name == "reverse_distance_first":
        for a in range(127, -1, -3):
            for b in range(0, 128, 5):
                CircleOfFifths.get_distance(b, a)
    elif name == "transpose_objects":
        from mc import lib
        from scoda.elements.bar import Bar
        for k in KEYS:
            s_ = lib.seq_abs([(0, 12, 60, 0, 64)], [("ks", 0, k)], 96)
            s_.transpose(5)
            Bar(lib.seq_abs([(0, 12, 60, 0, 64)], [], 96), 4, 4, Key(k)).transpose(-7)
    elif name == "tokeniser_info":
        from scoda.tokenisation.notelike_tokenisation import MultiTrackLargeVocabularyNotelikeTokeniser as Tok
        t = Tok(num_tracks=1)
        t.get_info([x for x in t.dictionary if "pit_" in x][::7], flag_impute_values=True)
    elif name == "transpose_chain":
        for k in KEYS:
            x = Key(k)
            for i in (1, 5, 7, 12, -3, 0, 24, -25):
                x = Key.transpose_key(x, i)


def units(ctx):
    for pr in PRELUDES:
        yield ("transpose", pr)
        yield ("additive", pr)
        for a in range(0, 128, 32):
            yield ("cof", pr, a)
    for typ in ("int64", "int32", "int16", "uint8", "int8"):
        yield ("typed", "none", typ)
    for k1 in KEYS:
        yield ("objects", "none", k1)


def fold(x):
    x %= 12
    return x - 12 if x > 6 else x


def tonic_of(key):
    if not isinstance(key, Key):
        return None
    return TONIC[key.value]


def check_case(case, ctx):
    # the tables are total functions on their stated domains: an exception that passes through a library frame is a
    # violation of its own, not a harness crash
    try:
        return _check_case(case, ctx)
    except Exception as e:  # noqa: BLE001
        import traceback
        if not any("/scoda/" in f.filename for f in traceback.extract_tb(e.__traceback__)):
            raise
        return [("table_function_raises", f"{list(case)}: {type(e).__name__}: {e}")]


def _check_case(case, ctx):
    out = []
    kind = case[0]
    if kind in ("seq_keys", "bar_keys"):
        from mc import lib
        from scoda.elements.bar import Bar
        k1, k2, i = case[1], case[2], case[3]
        s = lib.seq_abs([(0, 12, 60, 0, 64)], [("ks", 0, k1), ("ks", 48, k2)] if kind == "seq_keys" else [("ks", 48, k2)], 96)
        try:
            if kind == "seq_keys":
                s.transpose(i)
                bar_key = None
            else:
                b = Bar(s, 4, 4, Key(k1))
                b.transpose(i)
                s, bar_key = b.sequence, b.key_signature
        except Exception as e:  # noqa: BLE001
            return [("transposing_object_raises", f"{kind} {k1},{k2} by {i}: {type(e).__name__}: {e}")]
        got = [(e[0], e[7]) for e in lib.view_abs(s)[0] if e[1] == "key_signature"]
        want = ([(0, (TONIC[k1] + i) % 12)] if kind == "seq_keys" else []) + [(48, (TONIC[k2] + i) % 12)]
        gt = [(t, TONIC.get(k)) for t, k in got]
        if kind == "seq_keys" and k1 == k2:      # a restated key may be kept or dropped; only its value is demanded
            wrong = not gt or any(x[1] != want[0][1] for x in gt)
        else:
            wrong = gt != want
        if wrong:
            out.append(("key_event_not_shifted_by_the_interval", f"{kind} {k1},{k2} by {i}: key events {got}"))
        if kind == "bar_keys" and (not isinstance(bar_key, Key) or TONIC[bar_key.value] != (TONIC[k1] + i) % 12):
            out.append(("bar_key_not_shifted_by_the_interval", f"bar in {k1} holding a {k2} signature, by {i}: bar key {bar_key!r}"))
        return out
    if kind in ("cof_t", "transpose_t"):
        import numpy as np
        T = getattr(np, case[1])
        if kind == "cof_t":
            a, b = case[2], case[3]
            try:
                d = CircleOfFifths.get_distance(T(a), T(b))
                pa, pb = CircleOfFifths.get_position(T(a)), CircleOfFifths.get_position(T(b))
                back = CircleOfFifths.from_distance(T(a), d)
            except Exception as e:  # noqa: BLE001
                return [("cof_typed_pitch_raises", f"{case[1]}: {a}->{b}: {type(e).__name__}: {e}")]
            if int(pa) != fold(7 * a) or int(pb) != fold(7 * b):
                out.append(("cof_position", f"{case[1]}: position({a})={pa}, position({b})={pb}"))
            if not (-5 <= int(d) <= 6) or (int(d) - (fold(7 * b) - fold(7 * a))) % 12 != 0:
                out.append(("cof_distance_not_position_difference", f"{case[1]}: {a}->{b}: {d}"))
            if int(back) % 12 != b % 12:
                out.append(("cof_from_distance_misses_target", f"{case[1]}: from_distance({a},{d})={back} != {b % 12}"))
        else:
            k, i = case[2], case[3]
            if not (np.iinfo(T).min <= i <= np.iinfo(T).max):
                return out
            r = Key.transpose_key(Key(k), T(i))
            if not isinstance(r, Key) or tonic_of(r) != (TONIC[k] + i) % 12:
                out.append(("transpose_wrong_tonic", f"transpose_key({k}, {case[1]}({i})) = {r!r}"))
        return out
    if kind == "transpose":
        _, k, i = case
        r = Key.transpose_key(Key(k), i)
        if not isinstance(r, Key):
            out.append(("transpose_not_a_key", f"transpose_key({k},{i}) = {r!r}"))
        else:
            if tonic_of(r) != (TONIC[k] + i) % 12:
                out.append(("transpose_wrong_tonic", f"transpose_key({k},{i}) = {r.value}, tonic {tonic_of(r)} "
                                                     f"!= {(TONIC[k] + i) % 12}"))
            sc = MusicMapping.KeyNoteMapping.get(r)
            if sc is None or sorted(n.value for n in sc[0]) != sorted((TONIC[k] + i + d) % 12 for d in MAJOR):
                out.append(("transpose_wrong_scale", f"scale of transpose_key({k},{i})={r.value} is not the shifted scale"))
            if i % 12 == 0 and tonic_of(r) != TONIC[k]:
                out.append(("multiple_of_12_not_identity", f"{k} by {i} -> {r.value}"))
    elif kind == "additive":
        _, k, i, j = case
        a = Key.transpose_key(Key(k), i)
        ab = Key.transpose_key(a, j) if isinstance(a, Key) else None
        c = Key.transpose_key(Key(k), i + j)
        if not (isinstance(ab, Key) and isinstance(c, Key)) or tonic_of(ab) != tonic_of(c):
            out.append(("transpose_not_additive", f"{k}: by {i} then {j} = {ab!r}; by {i + j} = {c!r}"))
    elif kind == "scale":
        _, k = case
        sc = MusicMapping.KeyNoteMapping.get(Key(k))
        if sc is None:
            out.append(("key_without_scale", k))
        else:
            notes = [n.value for n in sc[0]]
            if sorted(notes) != sorted((TONIC[k] + d) % 12 for d in MAJOR) or len(set(notes)) != 7:
                out.append(("scale_not_major_on_tonic", f"{k}: {notes}"))
            elif notes[0] != TONIC[k]:
                out.append(("scale_does_not_start_on_tonic", f"{k}: {notes}"))
    elif kind == "cof":
        _, a, b = case
        pa, pb = CircleOfFifths.get_position(a), CircleOfFifths.get_position(b)
        if pa != fold(7 * a) or pb != fold(7 * b):
            out.append(("cof_position", f"position({a})={pa}, position({b})={pb}"))
        try:
            d = CircleOfFifths.get_distance(a, b)
        except AssertionError as e:
            out.append(("cof_distance_out_of_range", f"{a}->{b}: {e!r}"))
            return out
        if not (-5 <= d <= 6):
            out.append(("cof_distance_out_of_range", f"{a}->{b}: {d}"))
        if (d - (fold(7 * b) - fold(7 * a))) % 12 != 0:
            out.append(("cof_distance_not_position_difference", f"{a}->{b}: {d}"))
        if CircleOfFifths.from_distance(a, d) % 12 != b % 12:
            out.append(("cof_from_distance_misses_target", f"from_distance({a},{d})={CircleOfFifths.from_distance(a, d)} "
                                                           f"!= {b % 12}"))
    elif kind == "from":
        _, a, d = case
        r = CircleOfFifths.from_distance(a, d)
        if not isinstance(r, int) or not 0 <= r < 12 or fold(7 * r) != fold(fold(7 * a) + d):
            out.append(("cof_from_distance_wrong", f"from_distance({a},{d})={r!r}"))
    return out


def cases_of(unit):
    kind = unit[0]
    if kind == "transpose":
        return [("transpose", k, i) for k in KEYS for i in list(range(-300, 301)) + FAR] + [("scale", k) for k in KEYS]
    if kind == "additive":
        return [("additive", k, i, j) for k in KEYS for i in range(-13, 14) for j in range(-13, 14)] + \
               [("additive", k, i, j) for k in KEYS for i in BIG for j in list(range(-13, 14)) + BIG]
    if kind == "objects":
        # key transposition reached through the outer objects: a sequence with two key signatures (every ordered pair of
        # the 15 keys) and a bar whose own key differs from a key signature inside its sequence, x every interval -12..12
        return [("seq_keys", unit[2], k2, i) for k2 in KEYS for i in range(-12, 13)] + \
               [("bar_keys", unit[2], k2, i) for k2 in KEYS for i in range(-12, 13)]
    if kind == "typed":
        # the same pitches / intervals handed over as numpy integers (as they come out of note arrays / np.arange)
        typ = unit[2]
        return [("cof_t", typ, a, b) for a in range(128) for b in range(128)] + \
               [("transpose_t", typ, k, i) for k in KEYS for i in range(-36, 37)]
    a0 = unit[2]
    return [("cof", a, b) for a in range(a0, a0 + 32) for b in range(128)] + \
           [("from", a, d) for a in range(a0, a0 + 32) for d in range(-12, 13)]


def run_unit(unit, acc, ctx):
    pr = unit[1]
    prelude(pr)
    cases = cases_of(unit)
    for c in cases:
        trivial = (c[0] == "transpose" and c[2] == 0) or (c[0] == "cof" and c[1] == c[2]) or \
                  (c[0] == "additive" and c[2] == 0 and c[3] == 0) or (c[0] == "from" and c[2] == 0)
        acc.case(key=c, nontrivial=not trivial)
        acc.flags["prelude:" + pr] += 1
        if c[0] == "transpose":
            if c[2] % 12 == 0:
                acc.flag("transpose_multiple_of_12")
            if c[2] < 0:
                acc.flag("transpose_negative")
            if abs(c[2]) > 127:
                acc.flag("transpose_beyond_pitch_range")
            if c[1] in ("Db", "Gb", "Cb"):
                acc.flag("enharmonic_key_transposed")
        if c[0] in ("seq_keys", "bar_keys"):
            acc.flag("key_transposed_through_objects")
        if c[0] in ("cof_t", "transpose_t"):
            acc.flag("numpy_integer_arguments")
        if c[0] == "cof" and (c[2] - c[1]) % 12 == 6:
            acc.flag("cof_tritone")
        res = check_case(c, ctx)
        acc.outcomes.add(c[0] + ":" + ("ok" if not res else res[0][0]))
        for sig, detail in res:
            acc.violation(sig, {"prelude": pr, "unit": list(unit), "case": list(c)}, detail,
                          {"kind": c[0], "interval_mod_12": (c[2] % 12) if c[0] == "transpose" else None, "prelude": pr})
    acc.sample({"prelude": pr, "case": list(cases[len(cases) // 3])})


def replay(case, ctx):
    """replays the prelude and then the unit's cases up to and including the failing one (call order may matter);
    run in a brand-new process by the engine"""
    prelude(case["prelude"])
    target = tuple(case["case"])
    out = []
    for c in cases_of(tuple(case["unit"])):
        res = check_case(c, ctx)
        if tuple(c) == target:
            out = res
            break
    return out
