"""C16 - copies and derived sequences are independent values (E2 on (original, derived) pairs)."""
from mc import core, lib
from mc.lib import on, off, wait, cap
from scoda.elements.bar import Bar
from scoda.elements.composition import Composition
from scoda.elements.track import Track
from scoda.enumerations.message_type import MessageType as MT
from scoda.misc.music_theory import Key
from scoda.sequences.sequence import Sequence

ENGINE = "E2-bfs"
RULE = ("states are PAIRS (original, derived) rebuilt together so aliasing is preserved; derivation routes: Sequence.copy, "
        "Bar.copy, Track.copy, Composition.copy, every piece of split, every bar of sequences_split_bars (both settings), "
        "from 3 contents x 3 freshness states; then ALL histories up to the depth bound of in-place operations applied to "
        "either side; invariant after every transition: the other side's events through both views are unchanged and its "
        "views agree; dedupe key = raw representation of every stored view + aliasing pattern of message objects. "
        "non-trivial = the operation changes the side it is applied to")
SCALE = ('a 30-note five-bar content through four routes, a 70-note content (>200 relative messages) through split explored to depth 1, a dense bar whose only time signature sits in its middle through Bar.copy; cross-side operations (one side re-channelled and merged with the other, a copy of the other concatenated)')
ASSUMPTIONS = ["Bar.to_sequence is not a derivation route of the statement and is not explored"]
REQUIRED_FLAGS = ["op_on_derived", "op_on_original", "route:seq_copy", "route:split", "route:bars_q", "route:bars_nq",
                  "route:bar_copy", "route:track_copy", "route:comp_copy", "copy_equality_checked", "operated_side_changed"]


def contents(p):
    return {
        "S1": dict(notes=[(0, 12, p, 0, 64), (12, 24, p + 4, 0, 50)], events=[("ts", 0, 4, 4)], dur=96),
        "S2": dict(notes=[(84, 24, p + 2, 0, 64), (100, 12, p + 5, 0, 70)], events=[("ks", 0, "G")], dur=192),
        "S3": dict(notes=[(0, 10, p, 0, 64), (5, 20, p, 1, 30)], events=[], dur=40),
        # scale: five bars (4/4 then 3/4), thirty notes on three channels
        "S6": dict(notes=lib.long_desc(30, p - 10, (0, 1, 9), 12, lens=(6, 12, 18, 30)),
                   events=[("ts", 0, 4, 4), ("ks", 0, "D"), ("ts", 192, 3, 4)], dur=408),
        # scale: seventy notes (more than two hundred relative messages), cut near its start by split([20, 50])
        "S7": dict(notes=lib.long_desc(70, p - 10, (0, 1, 9), 6, lens=(3, 5, 4, 9)), events=[("ks", 0, "D")], dur=450),
        # one dense 4/4 bar: sixteen sixteenth notes on two channels, its time signature stated in the middle only
        "S8": dict(notes=[(6 * k, 6, p + k % 4, k % 2, 30 + k) for k in range(16)], events=[("ts", 48, 4, 4)], dur=96),
    }


def mk(content, fresh, p):
    if content == "S5":
        # a phrase repeated by concatenating it twice: the song holds every Message object of the phrase two times
        phrase = lib.seq_rel([(0, 6, p, 0, 64), (8, 4, p + 3, 0, 50)], [], 16)
        s = lib.seq_rel([(0, 4, p + 7, 0, 40)], [("ks", 0, "D")], 8)
        s.concatenate([phrase, phrase])
        if fresh == "AR":
            s.refresh()
        elif fresh == "A":
            s.refresh()
            s.invalidate_rel()
        return s
    if content == "S4":
        # non-integral tick values: the only public way to get them is halving odd tick distances without re-quantising
        s = lib.seq_abs([(1, 11, p, 0, 64), (13, 24, p + 4, 0, 50), (101, 21, p + 7, 1, 9)], [("ts", 0, 4, 4)], 192)
        s.scale(0.5, quantise_afterwards=False)
        if fresh == "AR":
            s.refresh()
        elif fresh == "A":
            s.refresh()
            s.invalidate_rel()
        return s
    c = contents(p)[content]
    if fresh == "R":
        return lib.seq_rel(c["notes"], c["events"], c["dur"])
    s = lib.seq_abs(c["notes"], c["events"], c["dur"])
    if fresh == "AR":
        s.rel  # noqa: B018
    return s


SEEDS = []
for _route in ("seq_copy", "split", "bars_q", "bars_nq"):
    for _c in ("S1", "S2", "S3"):
        for _f in ("A", "R", "AR"):
            SEEDS.append((_route, _c, _f))
for _f in ("A", "R", "AR"):
    SEEDS.append(("seq_copy", "S4", _f))
    SEEDS.append(("seq_copy", "S5", _f))
for _c in ("S1", "S3"):
    for _f in ("A", "R", "AR"):
        SEEDS.append(("bar_copy", _c, _f))
for _route, _f in (("seq_copy", "R"), ("split", "A"), ("bars_nq", "A"), ("comp_copy", "R")):
    SEEDS.append((_route, "S6", _f))
for _f in ("A", "R"):
    SEEDS.append(("split", "S7", _f))
    SEEDS.append(("bar_copy", "S8", _f))
for _f in ("A", "R", "AR"):
    SEEDS.append(("track_copy", "S2", _f))
SEEDS.append(("comp_copy", "S2", "A"))
SEEDS.append(("comp_copy", "S2", "R"))
# capacity lists with entries that yield no piece (zero) in front of, between and behind ordinary ones
for _route in ("split_zero_first", "split_zero_mid", "split_zero_last"):
    for _c in ("S1", "S2"):
        for _f in ("A", "R"):
            SEEDS.append((_route, _c, _f))


def derive(seed, p):
    route, content, fresh = seed
    s = mk(content, fresh, p)
    if route == "seq_copy":
        return (s, s.copy())
    if route == "split":
        return (s, s.split([20, 50]))
    if route.startswith("split_zero"):
        return (s, s.split({"split_zero_first": [0, 20], "split_zero_mid": [20, 0, 50], "split_zero_last": [20, 0]}[route]))
    if route in ("bars_q", "bars_nq"):
        bars = Sequence.sequences_split_bars([s], 0, quantise_note_lengths=(route == "bars_q"))
        return (s, bars[0])
    if route == "bar_copy":
        b = Bar(s, 4, 4, Key("G"))
        return (b, b.copy())
    if route == "track_copy":
        t = Track(Sequence.sequences_split_bars([s], 0)[0], name="t")
        return (t, t.copy())
    if route == "comp_copy":
        c = Composition.from_sequences([s, mk("S3", fresh, p)])
        return (c, c.copy())
    raise ValueError(route)


def seqs_of(obj):
    if isinstance(obj, Sequence):
        return [obj]
    if isinstance(obj, Bar):
        return [obj.sequence]
    if isinstance(obj, Track):
        return [b.sequence for b in obj.bars]
    if isinstance(obj, Composition):
        return [b.sequence for t in obj.tracks for b in t.bars]
    if isinstance(obj, (list, tuple)):
        return [x for o in obj for x in seqs_of(o)]
    raise TypeError(obj)


def _bars_of(obj):
    if isinstance(obj, Bar):
        return [obj]
    if isinstance(obj, Track):
        return list(obj.bars)
    return [b for t in obj.tracks for b in t.bars]


def fields_of(obj):
    if isinstance(obj, Bar):
        return [(obj.time_signature_numerator, obj.time_signature_denominator,
                 obj.key_signature.value if obj.key_signature else None)]
    if isinstance(obj, Track):
        return [fields_of(b) for b in obj.bars] + [obj.name]
    if isinstance(obj, Composition):
        return [fields_of(t) for t in obj.tracks]
    if isinstance(obj, (list, tuple)):
        return [fields_of(o) for o in obj]
    return []


def observe(obj):
    out = []
    for s in seqs_of(obj):
        ea, da, _ = lib.view_abs(s)
        er, dr, _ = lib.view_rel(s)
        out.append(((ea, da), (er, dr)))
    return out, fields_of(obj)


def _iter_abs_edit(s):
    for m in s.messages_abs():
        if m.message_type is MT.NOTE_ON:
            m.velocity = 99


def _iter_rel_edit(s):
    for m in s.messages_rel():
        if m.message_type in (MT.NOTE_ON, MT.NOTE_OFF):
            m.note += 1


def _add_abs(s):
    s.add_absolute_message(on(2, 30, 0, 50))
    s.add_absolute_message(off(4, 30, 0))


OPS = {
    "set_channel5": lambda s: s.set_channel(5),
    "transpose+1": lambda s: s.transpose(1),
    "transpose-1": lambda s: s.transpose(-1),
    "scale2": lambda s: s.scale(2, quantise_afterwards=False),
    "cutoff": lambda s: s.cutoff(6, 3),
    "quantise8": lambda s: s.quantise([8]),
    "qnl": lambda s: s.quantise_note_lengths([6, 12]),
    "normalise": lambda s: s.normalise(),
    "pad200": lambda s: s.pad(200),
    "iter_abs_edit": _iter_abs_edit,
    "iter_rel_edit": _iter_rel_edit,
    "add_abs": _add_abs,
    "add_rel_wait": lambda s: s.add_relative_message(wait(7)),
    "ow_abs": lambda s: s.overwrite_absolute_messages([on(0, 50, 0, 64), off(12, 50, 0), cap(24)]),
    "ow_rel": lambda s: s.overwrite_relative_messages([on(None, 51, 0, 64), wait(12), off(None, 51, 0)]),
}


def _x_merge_other(s, other):
    """the two sides meet again: one is re-channelled and then merges the other into itself (nothing overlaps, so
    normalising the result drops nothing)"""
    s.set_channel(7)
    s.merge([other])


def _x_concat_other_copy(s, other):
    s.concatenate([other.copy()])


XOPS = {"x_rechannel_merge_other": _x_merge_other, "x_concat_copy_of_other": _x_concat_other_copy}
OPNAMES = list(OPS) + list(XOPS)


def context(tier, seed):
    depth = 2 if tier == "quick" else 3
    return {"p": [60, 40, 90][seed % 3], "depth": depth, "tier": tier,
            "bounds": {"depth": depth, "seeds": len(SEEDS), "operations": OPNAMES, "sides": ["original", "derived"],
                       "targets": "first and last sequence of the side"}}


def seeds(ctx):
    return len(SEEDS)


def apply(state, step_):
    side, idx, name = step_
    target = seqs_of(state[side])[idx]
    if name in XOPS:
        XOPS[name](target, seqs_of(state[1 - side])[0])
        return
    OPS[name](target)


def build(seed_i, hist, ctx):
    st = derive(SEEDS[seed_i], ctx["p"])
    for h in hist:
        apply(st, h)
    return st


def key_of(st, ctx):
    ids, alias, raws = {}, [], []
    for side in (0, 1):
        for s in seqs_of(st[side]):
            raws.append(lib.raw_repr(s))
            for view in (None if s._abs_stale else s._abs, None if s._rel_stale else s._rel):   # fresh views only
                if view is not None:
                    for m in view._messages:
                        alias.append(ids.setdefault(id(m), len(ids)))
    return hash((tuple(raws), tuple(alias), core.jkey(fields_of(st[0])), core.jkey(fields_of(st[1]))))


def enabled(st, seed_i, hist, ctx):
    ops = []
    if SEEDS[seed_i][1] == "S7" and hist:
        return ops          # the long split seed is explored to depth 1 (every operation on every side and target)
    if SEEDS[seed_i][1] == "S6" and len(hist) >= 2:
        return ops          # the 30-note content is explored to depth 2 in both tiers
    if not hist:
        ops.append([1, 0, "check_derivation"])
    elif SEEDS[seed_i][0].endswith("copy"):
        ops.append([0, 0, "recopy"])      # a NEW copy of the original taken after the history must equal it
    for side in (0, 1):
        n = len(seqs_of(st[side]))
        for idx in sorted({0, n - 1}):
            for name in OPNAMES:
                ops.append([side, idx, name])
    return ops


def check_step(st, op, seed_i, ctx):
    viols, facts = [], ["route:" + SEEDS[seed_i][0]]
    side, idx, name = op
    if name == "check_derivation":
        if SEEDS[seed_i][0].endswith("copy"):
            facts.append("copy_equality_checked")
            a, b = observe(st[0]), observe(st[1])
            if a != b:
                viols.append(("copy_differs_from_original", f"original {a} copy {b}"))
        return viols, False, facts, False
    if name == "recopy":
        facts.append("copy_after_history_checked")
        try:
            c = st[0].copy()              # taken before anything reads the original's views
        except Exception as e:  # noqa: BLE001   (e.g. a bar whose sequence was padded beyond its capacity cannot be rebuilt)
            facts.append("raises:recopy:" + type(e).__name__)
            return viols, False, facts, False
        if isinstance(st[0], Sequence):
            a, b = observe(st[0]), observe(c)
        else:
            # a bar is rebuilt by its constructor when it is copied (signature event first, padded to its capacity): the
            # reference is the constructor applied to an independent copy of the bar's sequence
            try:
                ref = [Bar(x.sequence.copy(), x.time_signature_numerator, x.time_signature_denominator, x.key_signature)
                       for x in _bars_of(st[0])]
            except Exception as e:  # noqa: BLE001
                facts.append("raises:recopy:" + type(e).__name__)
                return viols, False, facts, False
            a, b = observe(ref), observe(_bars_of(c))
        if a != b:
            viols.append(("copy_differs_from_original", f"copy taken after the history: original {a} copy {b}"))
        return viols, False, facts, False
    other = 1 - side
    before_other = observe(st[other])
    before_self = observe(st[side])
    raised = None
    try:
        apply(st, op)
    except Exception as e:  # noqa: BLE001
        raised = f"{type(e).__name__}"
        facts.append("raises:" + name + ":" + raised)
    facts.append("op_on_derived" if side == 1 else "op_on_original")
    try:
        after_other = observe(st[other])
    except Exception as e:  # noqa: BLE001
        viols.append(("other_side_unreadable", f"{op}: {type(e).__name__}: {e}"))
        return viols, False, facts, False
    who = "original" if other == 0 else "derived"
    if after_other != before_other:
        for i, (x, y) in enumerate(zip(before_other[0], after_other[0])):
            if x != y:
                viols.append((f"{who}_changed_by_operation_on_other_side",
                              f"{op} ({SEEDS[seed_i]}): sequence {i} of the {who} was {x} now {y}"))
                break
        else:
            viols.append((f"{who}_fields_changed_by_operation_on_other_side", f"{before_other[1]} -> {after_other[1]}"))
    for i, (va, vr) in enumerate(after_other[0]):
        if va != vr:
            viols.append((f"{who}_views_disagree_after_operation_on_other_side", f"{op}: sequence {i}: abs {va} rel {vr}"))
            break
    changed = False
    if raised is None:
        try:
            changed = observe(st[side]) != before_self
        except Exception:  # noqa: BLE001
            changed = True
    if changed:
        facts.append("operated_side_changed")
    return viols, raised is None, facts, changed


def step(st, op, seed_i, hist, acc, ctx):
    viols, ok, facts, changed = check_step(st, op, seed_i, ctx)
    acc.case(key=None, nontrivial=changed)
    for f in facts:
        if f.startswith("raises:"):
            acc.outcomes.add(f)
        else:
            acc.flags[f] += 1
    acc.outcomes.add(SEEDS[seed_i][0] + (":changed" if changed else ":same"))
    case = {"seed": seed_i, "hist": [list(h) for h in hist], "op": list(op)}
    for sig, detail in viols:
        acc.violation(sig, case, detail, {"route": SEEDS[seed_i][0], "op": op[2]})
    if len(hist) == 1 and op[2] == "set_channel5" and len(acc.samples) < 1:
        acc.sample({"seed_desc": list(SEEDS[seed_i]), **case})
    if not ok or viols:
        return None, None
    return key_of(st, ctx), None


def replay(case, ctx):
    st = build(case["seed"], case["hist"], ctx)
    return check_step(st, case["op"], case["seed"], ctx)[0]
