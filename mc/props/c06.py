"""C06 - note-length quantisation yields only allowed durations and never moves onsets (E1)."""
import itertools
import sys

from mc import core, hist, lib

ENGINE = "E1-sweep"
TICK_EVERY = 5      # every 5th case of every unit is repeated with numpy integer ticks (int64 / int32)
RULE = ("all well-formed note sets (<=2 over the full lattice, <=3/<=4 over a reduced lattice, + 0-2 signature events) "
        "x 6 value lists x extension on/off, each compared with the independent fit model; distinct = distinct "
        "(values, extend, notes, events); non-trivial = some length changes or a note is removed")
SCALE = ('16-120 notes (long), ladder 129..1025; a note and its re-strike with 4..130 other notes of the channel struck in between; notes 769..70001 ticks long; a value list naming values twice; control and program changes; numpy integer ticks every 5th case')
ASSUMPTIONS = ["inputs are well-formed; any minimiser of |d - length| over the fitting values is accepted"]
REQUIRED_FLAGS = ["insertion_order_reverse", "insertion_order_ons_first", "after_history", "note_removed", "note_extended", "note_shortened", "tie_between_two_values", "back_to_back_repeat",
                  "same_pitch_two_channels", "shorter_than_smallest_value", "non_note_event"]

DEFAULT = [24, 12, 6, 16, 8, 4, 36, 18, 9]
VALUE_LISTS = [[4], [4, 8], [8, 4], [3, 6, 12], [6], None, [8, 4, 12, 8, 4],      # the last one names values twice
               [96, 48, 24, 12], [7, 50, 100, 20]]                                  # values far above the default maximum
PITCH_VARIANTS = [60, 21, 107, 64]
CHAN_VARIANTS = [(0, 1), (2, 9), (0, 15)]


def context(tier, seed):
    p = PITCH_VARIANTS[seed % len(PITCH_VARIANTS)]
    ch = CHAN_VARIANTS[(seed // len(PITCH_VARIANTS)) % len(CHAN_VARIANTS)]
    return {"p": p, "ch": ch, "tier": tier,
            "bounds": {"value_lists": VALUE_LISTS, "extension": [True, False], "pitches": [p, p + 1], "channels": list(ch),
                       "lattice": "onset 0..14 (first note of a pair 0..6 in quick), length 1..13 (+16,20,24,30,36,40 for the default list)",
                       "max_notes": 3 if tier == "quick" else 4}}


def _lens(vals):
    return list(range(1, 14)) + ([16, 20, 24, 30, 36, 40] if vals is None else []) + \
        ([20, 45, 47, 48, 49, 60, 74, 75, 90, 97, 110] if vals and max(vals) > 40 else [])


def units(ctx):
    for vi in range(len(VALUE_LISTS)):
        for dne in (False, True):
            yield ("single", vi, dne)
            for o1 in range(0, 7 if ctx["tier"] == "quick" else 15):
                yield ("pairs", vi, dne, o1)
            yield ("events", vi, dne)
            red = _reduced(ctx, VALUE_LISTS[vi])
            for i in range(len(red)):
                yield ("triples", vi, dne, i)
            if ctx["tier"] != "quick":
                for i in range(len(_reduced4(ctx))):
                    yield ("quads", vi, dne, i)
    yield from hist.hist_units()
    yield ("long",)
    for k in range(2 + 4):
        yield ("scale", k)


def _classes(ctx):
    p, (c0, c1) = ctx["p"], ctx["ch"]
    return [(p, c0), (p + 1, c0), (p, c1), (p + 1, c1)]


def _reduced(ctx, vals):
    p, (c0, c1) = ctx["p"], ctx["ch"]
    if ctx["tier"] == "quick":
        return [(o, l, pp, cc) for o in (0, 4, 6, 8, 12) for l in (1, 4, 5, 8)
                for (pp, cc) in [(p, c0), (p, c1), (p + 1, c0)]]
    return [(o, l, pp, cc) for o in (0, 3, 4, 6, 8, 12) for l in (1, 3, 4, 5, 6, 8, 12)
            for (pp, cc) in [(p, c0), (p, c1), (p + 1, c0)]]


def _reduced4(ctx):
    p, (c0, c1) = ctx["p"], ctx["ch"]
    return [(o, l, pp, cc) for o in (0, 4, 6, 8) for l in (1, 4, 5, 8) for (pp, cc) in [(p, c0), (p, c1)]]


def _mk(notes):
    return [[n[0], n[1], n[2], n[3], 30 + 9 * i] for i, n in enumerate(notes)]


def gen_cases(unit, ctx):
    if unit[0] == "long":
        for n in (16, 48, 120):
            for step in (5, 7, 12):
                for vals in ([4], [4, 8], [3, 6, 12], None):
                    for dne in (False, True):
                        ns = lib.long_desc(n, ctx["p"] - 2, (ctx["ch"][0], ctx["ch"][1], 9), step, lens=(3, 4, 5, 6, 11, 2))
                        yield {"values": vals, "dne": dne, "notes": [list(x) for x in ns], "events": [["ts", 0, 3, 4]]}
        return
    if unit[0] == "scale":
        p, (c0, c1) = ctx["p"], ctx["ch"]
        k = unit[1]
        if k == 0:
            # a note and its re-strike (gap one tick longer than the note, closest value longer than the gap) with K
            # other notes of the same channel struck in between, K = 4 ... 130
            for K in (4, 12, 31, 32, 33, 40, 70, 130):
                for (l, g) in ((22, 23), (5, 7), (10, 11)):
                    # every intervening note has its own pitch (well-formed whatever the onsets)
                    mid = [[1 + (i % (g - 2)), 1, (p + 1 + i) if K <= 40 else (p - 60 + i), c0, 20 + i % 90] for i in range(K)]
                    mid = [m for m in mid if 0 <= m[2] <= 127 and m[2] != p]
                    ns = [[0, l, p, c0, 99]] + mid + [[g, l, p, c0, 98], [g + 200, 3, p, c0, 97]]
                    for vals in ([24, 12, 6], None, [4, 8]):
                        for dne in (False, True):
                            yield {"values": vals, "dne": dne, "notes": ns, "events": []}
        elif k == 1:
            # notes thousands of ticks long (far beyond the largest allowed value)
            for L in lib.GAPS:
                ns = [[0, L, p, c0, 99], [5, 7, p + 1, c0, 50], [L + 50, L + 1, p, c0, 98], [3, L // 2, p, c1, 97]]
                for vals in ([24, 12, 6], None, [6, 12, 24, 48, 96], [96]):
                    for dne in (False, True):
                        yield {"values": vals, "dne": dne, "notes": ns, "events": [["ks", L, "G"]]}
        else:
            n = lib.LADDER[k]
            for step in (5, 12):
                for vals in ([4, 8], [3, 6, 12], None):
                    for dne in (False, True):
                        ns = lib.long_desc(n, p - 2, (c0, c1, 9), step, lens=(3, 4, 5, 6, 11, 2))
                        yield {"values": vals, "dne": dne, "notes": [list(x) for x in ns], "events": [["ts", 0, 3, 4]]}
        return
    if unit[0] == "hist":
        for h in hist.hist_of_unit(unit):
            for vals in ([4, 8], [3, 6, 12], None):
                for dne in (False, True):
                    yield {"seed": unit[1], "build": unit[2], "hist": h, "values": vals, "dne": dne}
        return
    kind, vi, dne = unit[:3]
    vals = VALUE_LISTS[vi]
    p, (c0, c1) = ctx["p"], ctx["ch"]
    base = {"values": vals, "dne": dne}
    lens = _lens(vals)
    if kind == "single":
        yield dict(base, notes=[], events=[])
        for o in range(0, 15):
            for l in lens:
                yield dict(base, notes=_mk([(o, l, p, c0)]), events=[])
    elif kind == "pairs":
        o1 = unit[3]
        for l1 in lens:
            n1 = (o1, l1, p, c0)
            for o2 in range(0, 15):
                for l2 in lens:
                    for cls in _classes(ctx):
                        n2 = (o2, l2) + cls
                        if cls == (p, c0) and (o2, l2) <= (o1, l1):
                            continue
                        if lib.well_formed([n1, n2]):
                            yield dict(base, notes=_mk([n1, n2]), events=[])
                            if cls == (p, c0) and o2 <= o1 + l1 + 1:     # same pitch, abutting or nearly: insertion order matters
                                yield dict(base, notes=_mk([n1, n2]), events=[], order="reverse")
                                yield dict(base, notes=_mk([n1, n2]), events=[], order="ons_first")
    elif kind == "events":
        for ns in ([], [(0, 5, p, c0)], [(3, 1, p, c0), (4, 7, p, c0)]):
            for t1 in range(0, 13):
                yield dict(base, notes=_mk(ns), events=[["ts", t1, 3, 4]])
                for t2 in range(0, 13):
                    yield dict(base, notes=_mk(ns), events=[["ts", t1, 3, 4], ["ks", t2, "G"]])
                    if t2 % 3 == 0:
                        yield dict(base, notes=_mk(ns), events=[["cc", t1, 64, 100], ["pc", t2, 5], ["cc", t2, 1, 0]])
    elif kind == "triples":
        red = _reduced(ctx, vals)
        i = unit[3]
        for j in range(i + 1, len(red)):
            if not lib.well_formed([red[i], red[j]]):
                continue
            for k in range(j + 1, len(red)):
                ns = [red[i], red[j], red[k]]
                if lib.well_formed(ns):
                    yield dict(base, notes=_mk(ns), events=[])
    elif kind == "quads":
        red = _reduced4(ctx)
        i = unit[3]
        for c in itertools.combinations(range(i + 1, len(red)), 3):
            ns = [red[i]] + [red[x] for x in c]
            if lib.well_formed(ns):
                yield dict(base, notes=_mk(ns), events=[])


def check_case(case, ctx):
    R = core.Res()
    vals, dne = case["values"], case["dne"]
    values = list(vals) if vals is not None else list(DEFAULT)
    if "hist" in case:
        live = hist.live_case(case, R, ctx["p"], *ctx["ch"], hp=ctx["p"] - 20)
        if live is None:
            return R
        s, notes, events, _ = live
    else:
        notes, events = case["notes"], case["events"]
        s = lib.seq_abs(notes, events, order=case.get("order", "sane"))
        if case.get("order"):
            R.flags.append("insertion_order_" + case["order"])
    in_ev, _, _ = lib.view_abs(s)
    try:
        if vals is None:
            s.quantise_note_lengths(do_not_extend=dne)
        else:
            s.quantise_note_lengths(list(vals), do_not_extend=dne)
        out_ev, _, _ = lib.view_abs(s)
    except Exception as e:  # noqa: BLE001
        R.bad("quantise_note_lengths_raises", f"{type(e).__name__}: {e}")
        R.nontrivial = True
        return R
    if events:
        R.flags.append("non_note_event")
    if len({n[2] for n in notes}) < len({(n[2], n[3]) for n in notes}):
        R.flags.append("same_pitch_two_channels")
    onotes, orphans, retrig, unclosed = lib.pair_notes(out_ev)
    if orphans or retrig or unclosed:
        R.bad("notes_not_paired_or_overlap", f"orphans={orphans} retriggers={retrig} unclosed={unclosed} out={out_ev}")
    if lib.non_note(in_ev) != lib.non_note(out_ev):
        R.bad("non_note_event_touched", f"in {lib.non_note(in_ev)} out {lib.non_note(out_ev)}")
    by_vel = {}      # keyed by identity (channel, pitch, onset): onsets never move, velocity is compared separately
    for n in onotes:
        by_vel.setdefault((n[0], n[1], n[2]), []).append(n)
    changed = False
    expected_vels = set()
    for n in notes:
        o, l, pp, cc, v = n
        nxt = [m[0] for m in notes if m is not n and (m[2], m[3]) == (pp, cc) and m[0] >= o + l]
        nxt = min(nxt) if nxt else None
        if nxt == o + l:
            R.flags.append("back_to_back_repeat")
        fit = [d for d in values if (nxt is None or o + d <= nxt) and (not dne or d <= l)]
        if l < min(values):
            R.flags.append("shorter_than_smallest_value")
        got = by_vel.get((cc, pp, o), [])
        if not fit:
            R.flags.append("note_removed")
            changed = True
            if got:
                R.bad("note_kept_though_nothing_fits", f"note {n}, values {values}, dne={dne}: out {got}")
            continue
        expected_vels.add((cc, pp, o))
        best = min(abs(d - l) for d in fit)
        ok = {d for d in fit if abs(d - l) == best}
        if len(ok) > 1:
            R.flags.append("tie_between_two_values")
        if len(got) != 1:
            R.bad("note_removed_though_a_value_fits", f"note {n}, fit {fit}: out {got}; all out {onotes}")
            continue
        g = got[0]
        d = g[3] - g[2]
        if g[4] != v:
            R.bad("velocity_changed", f"note {n} became {g}")
        elif d not in values:
            R.bad("duration_not_allowed", f"note {n} became {g}, length {d} not in {values}")
        elif d not in ok:
            R.bad("duration_not_closest_fit", f"note {n} became length {d}; closest fitting {sorted(ok)} of fit {fit}")
        if dne and d > l:
            R.bad("note_extended_with_extension_disabled", f"note {n} became {g}")
        if d > l:
            R.flags.append("note_extended")
        if d < l:
            R.flags.append("note_shortened")
        if d != l:
            changed = True
    extra = [n for n in onotes if (n[0], n[1], n[2]) not in expected_vels]
    if extra and not R.viols:
        R.bad("unexpected_output_note", f"{extra}")
    R.nontrivial = changed
    R.outcome = f"{len(onotes)}of{len(notes)}" + ("+chg" if changed else "")
    R.tags = {"dne": dne, "n_notes": len(notes)}
    return R


_m = sys.modules[__name__]
run_unit = core.std_run_unit(_m)
replay = core.std_replay(_m)
