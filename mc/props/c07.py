"""C07 - normalise returns a well-formed sequence with the same duration and sound (E1 on words)."""
import itertools
import sys

from mc import core, hist, lib
from scoda.elements.message import Message
from scoda.enumerations.message_type import MessageType as MT
from scoda.misc.music_theory import Key
from scoda.sequences.relative_sequence import RelativeSequence
from scoda.sequences.sequence import Sequence

ENGINE = "E1-sweep"
TICK_EVERY = 5      # every 5th case of every unit is repeated with numpy integer ticks (int64 / int32)
RULE = ("ALL words of relative messages up to the length bound over the symbol alphabet (note-on/off x channels x "
        "pitches, wait 1/2, two time signatures, two key signatures), ill-formed ones included; distinct = distinct "
        "words; non-trivial = the word contains a re-trigger, orphan, unclosed note, nesting or a repeated signature")
SCALE = ('words of hundreds of messages from a long piece with injected re-triggers / orphans / restated signatures; one (channel, pitch) struck 1..12 times before any release (released k-1, k, k+1 times); chords of 1..12 notes played, released, struck again and never released; ladder 33..1025 notes under a pedal note, trailing rest of 70001 ticks; controllers (64, 120, 123) in the word alphabet; EVERY pair of pitches 0..127 sounding together on neighbouring channels (3 channel pairs, overlapping and nested); numpy integer waits every 5th case')
ASSUMPTIONS = ["fragmentation of rests into wait messages and the velocity a fused note keeps are not demanded"]
REQUIRED_FLAGS = ["after_history", "aliased_messages_inside_sequence", "retrigger", "orphan_off", "unclosed_on", "nested", "repeated_signature", "balanced_word_roll_compared",
                  "pitch_equals_channel_number", "trailing_wait", "controller_message"]


def context(tier, seed):
    third = [60, 21, 108, 64][seed % 4]
    if tier == "quick":
        pitches, maxlen = [0, 1, third], 4
    else:
        pitches, maxlen = [1, third], 6
    syms = [f"{k}:{c}:{p}" for k in ("on", "off") for c in (0, 1) for p in pitches] + ["on0:0:1", "w1", "w2", "w0", "ts34", "ts44", "ksC", "ksG"]
    if tier == "quick":
        syms += ["cc123:0", "cc120:1", "cc64:0"]      # controllers, among them "all notes off" / "all sound off"
        syms += ["ts34@1", "ksG@1"]                   # the same signatures carried by a message of another channel
    ctx = {"syms": syms, "maxlen": maxlen, "tier": tier,
           "bounds": {"alphabet": syms, "max_word_length": maxlen, "words": sum(len(syms) ** k for k in range(maxlen + 1))}}
    if tier != "quick":
        # the quick alphabet (3 pitches incl. pitch == channel number) is also swept completely to length 4
        ctx["syms_b"] = [f"{k}:{c}:{p}" for k in ("on", "off") for c in (0, 1) for p in [0, 1, third]] + \
                        ["w1", "w2", "w0", "ts34", "ts44", "ksC", "ksG", "cc123:0", "cc120:1", "cc64:0", "ts34@1", "ksG@1"]
    return ctx


def units(ctx):
    yield ("short", "a")
    for a in ctx["syms"]:
        for b in ctx["syms"]:
            yield ("pre", "a", a, b)
    if "syms_b" in ctx:
        yield ("short", "b")
        for a in ctx["syms_b"]:
            for b in ctx["syms_b"]:
                yield ("pre", "b", a, b)
    yield from hist.hist_units()
    yield ("long", "a")
    yield ("deep", "a")
    for c in (0, 7, 14):
        for a0 in range(0, 128, 16):
            yield ("pitchpairs", c, a0)
    yield ("ladder", "a")
    for a in ctx["syms"][-6:] + ctx["syms"][:2]:
        yield ("aliased", a)


def gen_cases(unit, ctx):
    if unit[0] == "hist":
        for h in hist.hist_of_unit(unit):
            yield {"seed": unit[1], "build": unit[2], "hist": h}
        return
    if unit[0] == "long":
        # scale: words of hundreds of messages built from a long well-formed piece, with ill-formed insertions
        for n in (16, 48, 120):
            for inject in (0, 5, 11):
                items = []
                for k, (o, l, p, c, v) in enumerate(lib.long_desc(n, 40, (0, 1, 9), 5, lens=(3, 9, 5, 14))):
                    items.append((o, 1, f"on:{c}:{p}"))
                    items.append((o + l, 0, f"off:{c}:{p}"))
                    if inject and k % inject == 2:
                        items.append((o + 1, 1, f"on:{c}:{p}"))          # re-trigger while sounding
                    if inject and k % inject == 3:
                        items.append((o + l + 1, 0, f"off:{c}:{p}"))      # orphan release
                    if inject and k % inject == 4:
                        items.append((o + 2, 2, "ts34" if k % 2 else "ksG"))  # restated signatures
                if inject:
                    items.append((5 * n + 3, 1, "on:1:99"))                # never closed
                items.sort()
                word, t = [], 0
                for (tick, _, sym) in items:
                    if tick > t:
                        word.append(f"w{tick - t}")
                        t = tick
                    word.append(sym)
                word.append("w17")
                yield {"word": word}
        return
    if unit[0] == "pitchpairs":
        # EVERY pair of pitches 0..127 sounding together on two neighbouring channels (overlapping and nested)
        _, c, a0 = unit
        for a in range(a0, a0 + 16):
            for b in range(128):
                yield {"word": [f"on:{c}:{a}", f"on:{c + 1}:{b}", "w1", f"off:{c}:{a}", "w1", f"off:{c + 1}:{b}"]}
                yield {"word": [f"on:{c + 1}:{b}", f"on:{c}:{a}", "w2", f"off:{c}:{a}", "w1", f"off:{c + 1}:{b}", "w1"]}
        return
    if unit[0] == "deep":
        # scale in depth: one (channel, pitch) struck k times before any release (k = 1 ... 12), released k, k-1 or k+1
        # times; and chords of m notes (m = 1 ... 12) played and released, then struck again and never released
        for k in range(1, 13):
            for gap in (1, 4):
                for rel in (k, k - 1, k + 1):
                    word = []
                    for _ in range(k):
                        word += ["on:0:72", f"w{gap}"]
                    for _ in range(rel):
                        word += ["off:0:72", "w2"]
                    yield {"word": ["on:1:40", "w3"] + word + ["off:1:40", "w5"]}
        for m in range(1, 13):
            for closed_first in (True, False):
                word = []
                if closed_first:
                    for r in range(2):
                        for j in range(m):
                            word += [f"on:{j % 2}:{50 + j}", "w2", f"off:{j % 2}:{50 + j}", "w1"]
                for j in range(m):
                    word.append(f"on:{j % 2}:{50 + j}")
                yield {"word": word + ["w24"]}
                yield {"word": word + ["w6", "on:0:90", "w2", "off:0:90", "w16"]}
        return
    if unit[0] == "ladder":
        for n in lib.LADDER:
            items = []
            for k, (o, l, p, c, v) in enumerate(lib.long_desc(n, 40, (0, 1, 9), 5, lens=(3, 9, 5, 14))):
                items.append((o, 1, f"on:{c}:{p}"))
                items.append((o + l, 0, f"off:{c}:{p}"))
            items.append((2, 1, "on:1:99"))
            items.append((5 * n + 40, 0, "off:1:99"))                    # one pedal note under everything
            items.sort()
            word, t = [], 0
            for (tick, _, sym) in items:
                if tick > t:
                    word.append(f"w{tick - t}")
                    t = tick
                word.append(sym)
            yield {"word": word + ["w70001"]}
        return
    if unit[0] == "aliased":
        # words in which every occurrence of a symbol is THE SAME Message object (what concatenating a motif twice gives)
        syms = ctx["syms"]
        for k in (1, 2, 3):
            for rest in itertools.product(["w1", "w2", "ts34", syms[0], syms[len(syms) // 2 - 3]], repeat=k):
                yield {"word": [unit[1]] + list(rest) + [unit[1]], "aliased": True}
        return
    syms = ctx["syms"] if unit[1] == "a" else ctx["syms_b"]
    maxlen = ctx["maxlen"] if unit[1] == "a" else 4
    if unit[0] == "short":
        yield {"word": []}
        for a in syms:
            yield {"word": [a]}
        return
    pre = [unit[2], unit[3]]
    for k in range(0, maxlen - 1):
        for rest in itertools.product(syms, repeat=k):
            yield {"word": pre + list(rest)}


def mk(sym):
    if sym[0] == "w":
        return Message(message_type=MT.WAIT, time=lib.tk(int(sym[1:])))
    if sym.startswith("cc"):
        n, c = sym[2:].split(":")
        return Message(message_type=MT.CONTROL_CHANGE, channel=int(c), control=int(n), velocity=0)
    if sym.startswith("ts"):
        return Message(message_type=MT.TIME_SIGNATURE, numerator=int(sym[2]), denominator=int(sym[3]),
                       channel=int(sym.split("@")[1]) if "@" in sym else None)
    if sym.startswith("ks"):
        return Message(message_type=MT.KEY_SIGNATURE, key=Key(sym[2:].split("@")[0]),
                       channel=int(sym.split("@")[1]) if "@" in sym else None)
    k, c, p = sym.split(":")
    if k == "on":
        return Message(message_type=MT.NOTE_ON, channel=int(c), note=int(p), velocity=64)
    if k == "on0":      # a note-on with the smallest legal velocity field, 0: still a note-on for the library
        return Message(message_type=MT.NOTE_ON, channel=int(c), note=int(p), velocity=0)
    return Message(message_type=MT.NOTE_OFF, channel=int(c), note=int(p))


def analyse(word):
    """facts about the input word computed from the symbols only"""
    depth, t, facts, balanced = {}, 0, set(), True
    roll, since = set(), {}
    ts = ks = None
    for sym in word:
        if sym[0] == "w":
            t += int(sym[1:])
        elif sym.startswith("cc"):
            facts.add("controller_message")
        elif sym.startswith("ts"):
            if sym.split("@")[0] == ts:
                facts.add("repeated_signature")
            ts = sym.split("@")[0]
        elif sym.startswith("ks"):
            if sym.split("@")[0] == ks:
                facts.add("repeated_signature")
            ks = sym.split("@")[0]
        else:
            k, c, p = sym.split(":")
            key = (int(c), int(p))
            if key[0] == key[1]:
                facts.add("pitch_equals_channel_number")
            d = depth.get(key, 0)
            if k in ("on", "on0"):
                if d > 0:
                    facts.add("retrigger")
                    facts.add("nested")
                else:
                    since[key] = t
                depth[key] = d + 1
            else:
                if d == 0:
                    facts.add("orphan_off")
                    balanced = False
                else:
                    depth[key] = d - 1
                    if d == 1:
                        roll.update((key[0], key[1], x) for x in range(since[key], t))
    if any(d > 0 for d in depth.values()):
        facts.add("unclosed_on")
        balanced = False
    if word and word[-1][0] == "w":
        facts.add("trailing_wait")
    return facts, balanced, roll, t


def check_case(case, ctx):
    R = core.Res()
    if "hist" in case:
        live = hist.live_case(case, R, 60, 0, 1, hp=40)
        if live is None:
            return R
        s, notes, events, dur_in = live
        facts, balanced = set(), True
        roll_in = lib.roll_of_notes(lib.desc_notes(notes))
        word = None
    else:
        word = case["word"]
        facts, balanced, roll_in, dur_in = analyse(word)
        R.flags.extend(sorted(facts))
        R.nontrivial = bool(facts - {"pitch_equals_channel_number", "trailing_wait"})
        if case.get("aliased"):
            shared = {}
            s = Sequence(relative_sequence=RelativeSequence([shared.setdefault(x, mk(x)) for x in word]))
            R.flags.append("aliased_messages_inside_sequence")
        else:
            s = Sequence(relative_sequence=RelativeSequence([mk(x) for x in word]))
    try:
        s.normalise()
        stream, dur = lib.rel_stream(s)
    except Exception as e:  # noqa: BLE001
        R.bad("normalise_raises", f"{type(e).__name__}: {e}")
        return R
    ev = [lib._ev(t, m) for t, m in stream]
    notes, orphans, retrig, unclosed = lib.pair_notes(ev, ordered=True)
    if retrig:
        R.bad("retrigger_survives", f"{retrig} in {ev}")
    if orphans:
        R.bad("orphan_note_off_survives", f"{orphans} in {ev}")
    if unclosed:
        R.bad("unclosed_note_survives", f"{unclosed} in {ev}")
    ts = ks = None
    for e in ev:
        if e[1] == "time_signature":
            if (e[5], e[6]) == ts:
                R.bad("repeated_time_signature_survives", f"{ev}")
            ts = (e[5], e[6])
        elif e[1] == "key_signature":
            if e[7] == ks:
                R.bad("repeated_key_signature_survives", f"{ev}")
            ks = e[7]
    if dur != dur_in:
        R.bad("duration_changed", f"input waits sum to {dur_in}, output to {dur}")
    if balanced:
        R.flags.append("balanced_word_roll_compared")
        roll_out = lib.roll_of_events(ev, ordered=True)
        if roll_out != roll_in:
            R.bad("sounding_set_changed", f"in {sorted(roll_in)} out {sorted(roll_out)}")
    R.validated = 1
    # idempotence on the canonical content of both views
    try:
        before = (lib.view_rel(s)[:2], lib.view_abs(s)[:2])
        s.normalise()
        after = (lib.view_rel(s)[:2], lib.view_abs(s)[:2])
        if before != after:
            R.bad("second_normalise_changes_observation", f"before {before} after {after}")
    except Exception as e:  # noqa: BLE001
        R.bad("second_normalise_raises", f"{type(e).__name__}: {e}")
    R.outcome = f"n{len(notes)}" + "".join(sorted(f[0] for f in facts))
    R.tags = {"facts": sorted(facts)}
    return R


_m = sys.modules[__name__]
run_unit = core.std_run_unit(_m)
replay = core.std_replay(_m)
