"""C02 - vocabulary is closed under tokenise; encode and decode are inverse bijections (E1, complete per configuration)."""
import itertools
import sys

from mc import core, lib
from scoda.elements.bar import Bar
from scoda.exceptions.tokenisation_exception import TokenisationException
from scoda.sequences.sequence import Sequence
from scoda.tokenisation.notelike_tokenisation import MultiTrackLargeVocabularyNotelikeTokeniser as Tok

ENGINE = "E1-sweep"
FRESH_WORKERS = True     # every configuration (or configuration history) is built in a newly forked child
RULE = ("for every configuration of the lattice (16 flag sets x velocity_bins x num_tracks x pitch ranges x note-value sets x "
        "step-size sets x time-signature ranges) the WHOLE vocabulary is enumerated: ids, sizes, encode/decode both ways and "
        "detokenise on every member; closure: every token emitted by tokenise on a pool of regular and irregular inputs is a "
        "member; distinct = distinct (configuration, member); non-trivial = configuration differs from the two the suite builds")
SCALE = ('PPQN 96/480/960 configurations with step sizes and note values of that resolution (token fields of four digits) and a six-bar piece written at that resolution; step / value lists naming an entry twice; note values longer than the longest bar; explicitly stated default signatures under both ranges; token and id streams handed over as tuple / generator / iterator / map')
ASSUMPTIONS = ["a tokenise call that raises TokenisationException is a rejection, not a violation",
               "entries of step_sizes / note_values are Python ints as the signature says (list[int]); lists may be unsorted and "
               "may name an entry twice"]
REQUIRED_FLAGS = ["construction_history", "unfused_velocity", "unfused_track", "unfused_value", "no_running_values", "bins_gt_1", "multi_track",
                  "closure_tokens_checked", "rejection_observed", "irregular_input_accepted", "member_detokenised",
                  "piece_at_high_resolution_accepted", "stream_handed_over_as_generator"]

FLAGS = list(itertools.product((True, False), repeat=4))   # running, fuse_track, fuse_value, fuse_velocity
VALUE_SETS = [None, [6, 12, 36], [12], [12, 6, 36, 12, 6],            # the fourth names values twice
              [12, 96, 288, 384]]                                     # values longer than the longest bar (pedal points)
STEP_SETS = [None, [12, 24], [6, 12, 24], [12, 24, 12, 6]]
TSR = [(2, 16), (3, 4)]


def lattice(tier):
    if tier == "quick":
        for fl in FLAGS:
            for vb in (1, 2, 8, 15, 19):
                for nt in (1, 2):
                    for pr in ((21, 108), (60, 61)):
                        yield dict(fl=fl, vb=vb, nt=nt, pr=pr, nv=0, st=0, tsr=0)
        for vb in (3, 4, 5, 7, 16, 17, 23, 32, 36, 50, 64, 84, 85, 100, 126, 127):
            for fl in (FLAGS[0], FLAGS[15]):
                yield dict(fl=fl, vb=vb, nt=1, pr=(60, 61), nv=2, st=0, tsr=1)
        for fl in (FLAGS[0], FLAGS[15], FLAGS[5]):
            for nv in (1, 2):
                for st in (1, 2):
                    for tsr in (0, 1):
                        yield dict(fl=fl, vb=3, nt=3, pr=(60, 61), nv=nv, st=st, tsr=tsr)
    else:
        for fl in FLAGS:
            for vb in (1, 2, 3, 4, 5, 8, 15, 16, 19, 32, 64, 100, 127):
                for nt in (1, 2, 3):
                    for pr in ((21, 108), (60, 61), (0, 127)):
                        if pr == (0, 127) and (vb > 8 or nt == 3) and fl[3]:
                            continue   # > 10^5 entries each and nothing new: the same code paths at smaller size
                        for nv in (0, 1, 2):
                            if pr != (60, 61) and nv:
                                continue
                            yield dict(fl=fl, vb=vb, nt=nt, pr=pr, nv=nv, st=0, tsr=0)
        for fl in FLAGS:
            for st in (1, 2):
                for tsr in (0, 1):
                    for nv in (0, 1, 2):
                        yield dict(fl=fl, vb=3, nt=2, pr=(60, 61), nv=nv, st=st, tsr=tsr)
        # every possible number of velocity bins (the table construction is the root of most vocabulary defects)
        for vb in range(1, 128):
            for fl in (FLAGS[0], FLAGS[15], FLAGS[1]):
                yield dict(fl=fl, vb=vb, nt=1, pr=(60, 61), nv=2, st=0, tsr=1)


def repeated_entries(tier):
    """value / step lists that name an entry more than once (e.g. plain + dotted + triplet values put together from the
    library's own helpers: triplets of dotted values equal plain values)"""
    for fl in (FLAGS[0], FLAGS[15], FLAGS[6]):
        yield dict(fl=fl, vb=2, nt=1, pr=(60, 61), nv=3, st=0, tsr=0)
        yield dict(fl=fl, vb=2, nt=2, pr=(60, 61), nv=0, st=3, tsr=0)
        yield dict(fl=fl, vb=1, nt=1, pr=(60, 61), nv="helpers", st=0, tsr=0)
        yield dict(fl=fl, vb=1, nt=2, pr=(60, 61), nv=4, st=0, tsr=0)
        yield dict(fl=fl, vb=2, nt=1, pr=(60, 61), nv=4, st=0, tsr=1)


def resolutions(tier):
    """scale in the time resolution: PPQN 96 / 480 / 960 with step sizes and note values of that resolution (token fields
    of four digits)"""
    for ppqn in (96, 480, 960):
        for fl in (FLAGS[0], FLAGS[15], FLAGS[4], FLAGS[11]):
            yield dict(fl=fl, vb=2, nt=2, pr=(60, 61), nv=0, st=0, tsr=0, ppqn=ppqn)
    # odd resolutions with the default step sizes / note values (bar capacities ppqn * n / 2 are no whole numbers for odd n)
    for ppqn in (45, 15, 7):
        for fl in (FLAGS[0], FLAGS[15]):
            yield dict(fl=fl, vb=2, nt=2, pr=(60, 61), nv=0, st=0, tsr=0, ppqn_only=ppqn)
    # inputs whose ticks are float SUMS (a stretch by 1/k with an event inside the note): just below / above a note value
    for fl in (FLAGS[0], FLAGS[15]):
        yield dict(fl=fl, vb=1, nt=1, pr=(60, 61), nv=0, st=0, tsr=0, float_sums=True)


def context(tier, seed):
    n = sum(1 for _ in lattice(tier)) + sum(1 for _ in resolutions(tier)) + sum(1 for _ in repeated_entries(tier))
    return {"tier": tier, "bounds": {"configurations": n, "flags": 16, "velocity_bins": "see lattice()", "tier": tier}}


def histories(tier):
    """construction histories: tokenisers built (and used) earlier in the same process, differing from the one under
    test in exactly one parameter - shared class-level or module-level state would leak from one to the other"""
    out = []
    for fl in (FLAGS[0], FLAGS[15], FLAGS[2]):
        base = dict(fl=fl, vb=2, nt=2, pr=(60, 61), nv=0, st=0, tsr=0)
        variants = [dict(base, st=1), dict(base, st=2), dict(base, tsr=1), dict(base, vb=8), dict(base, vb=1), dict(base, nt=1),
                    dict(base, nt=3), dict(base, pr=(60, 62)), dict(base, nv=1), dict(base, nv=2)]
        variants += [dict(base, fl=tuple(not x if i == k else x for i, x in enumerate(fl))) for k in range(4)]
        for v in variants:
            out.append(dict(v, before=[base]))
            out.append(dict(base, before=[v]))
        out.append(dict(base, before=[variants[0], variants[3], variants[5]]))
    return out


def units(ctx):
    return list(lattice(ctx["tier"])) + histories(ctx["tier"]) + list(resolutions(ctx["tier"])) + list(repeated_entries(ctx["tier"]))


def make_tok(cfg):
    fl = cfg["fl"]
    if cfg["nv"] == "helpers":
        from scoda.misc.util import get_note_durations, get_tuplet_durations, get_dotted_note_durations
        plain = get_note_durations(1, 8)
        dotted = get_dotted_note_durations(plain, 1)
        nv = [int(x) for x in plain + dotted + get_tuplet_durations(plain + dotted, 3, 2) if x == int(x) and x >= 1]
        st = None
    else:
        nv, st = VALUE_SETS[cfg["nv"]], STEP_SETS[cfg["st"]]
    if cfg.get("ppqn_only"):
        return Tok(ppqn=cfg["ppqn_only"], num_tracks=cfg["nt"], pitch_range=tuple(cfg["pr"]), velocity_bins=cfg["vb"],
                   time_signature_range=TSR[cfg["tsr"]], flag_running_values=fl[0], flag_fuse_track=fl[1],
                   flag_fuse_value=fl[2], flag_fuse_velocity=fl[3])
    if cfg.get("ppqn"):
        q = cfg["ppqn"]
        return Tok(ppqn=q, num_tracks=cfg["nt"], pitch_range=tuple(cfg["pr"]), velocity_bins=cfg["vb"],
                   step_sizes=[q // 4, q // 2, q, 2 * q, 4 * q], note_values=[q // 4, q // 2, q, q + q // 2, 2 * q, 8 * q // 3 if q % 3 == 0 else 3 * q, 4 * q],
                   time_signature_range=TSR[cfg["tsr"]], flag_running_values=fl[0], flag_fuse_track=fl[1],
                   flag_fuse_value=fl[2], flag_fuse_velocity=fl[3])
    return Tok(num_tracks=cfg["nt"], pitch_range=tuple(cfg["pr"]), velocity_bins=cfg["vb"],
               step_sizes=list(st) if st else None, note_values=list(nv) if nv else None,
               time_signature_range=TSR[cfg["tsr"]], flag_running_values=fl[0], flag_fuse_track=fl[1],
               flag_fuse_value=fl[2], flag_fuse_velocity=fl[3])


def pool(cfg, t):
    """regular and irregular tokenise inputs fitted to the configuration: list of (name, [sequences])"""
    lo, hi = cfg["pr"]
    vals = sorted(t.note_values)
    v0, v1 = vals[0], vals[-1]
    vm = 12 if 12 in vals else v0
    nt = cfg["nt"]

    def tracks(first, others=None):
        return [first] + [(others[k] if others and k < len(others) else Sequence()) for k in range(nt - 1)]
    out = []
    if cfg.get("ppqn"):
        # a piece written at the tokeniser's own resolution: 3/4, six bars, every note value once, ticks in the thousands
        q = cfg["ppqn"]
        ns = [(3 * q * b + (q // 2 if b % 2 else 0), vals[b % len(vals)] if vals[b % len(vals)] <= 2 * q else q, lo + b % 2, 0, 64) for b in range(6)]
        out.append(("piece_at_resolution", tracks(lib.seq_abs(ns, [("ts", 0, 3, 4)], 18 * q), [lib.seq_abs([(q, vals[-1], hi, 0, 9)], [], None)])))
    out.append(("one_note", tracks(lib.seq_abs([(0, vm, lo, 0, 64)]))))
    # signatures stated explicitly although they are the default (4/4 = 8 eighths), 2/2, 8/8, and the range limits
    for nm, (n_, d_) in (("explicit_four_four", (4, 4)), ("explicit_eight_eight", (8, 8)), ("two_two", (2, 2)), ("two_eight", (2, 8)),
                         ("sixteen_eight", (16, 8)), ("one_four", (1, 4))):
        out.append((nm, tracks(lib.seq_abs([(0, vm, lo, 0, 64)], [("ts", 0, n_, d_)], 96 * n_ // d_))))
    out.append(("loud_and_soft", tracks(lib.seq_abs([(0, vm, lo, 0, 1), (24, vm, hi, 0, 127), (48, v1, lo, 0, 100)]))))
    out.append(("rest_crossing_bar", tracks(lib.seq_abs([(96 + 24, vm, hi, 0, 33)]))))
    out.append(("three_four", tracks(lib.seq_abs([(48, vm, lo, 0, 77)], [("ts", 0, 3, 4)]))))
    out.append(("sig_change", tracks(lib.seq_abs([(0, vm, lo, 0, 64), (72, vm, hi, 0, 64)], [("ts", 0, 6, 8), ("ts", 72, 4, 4)], 168))))
    out.append(("mid_bar_signature", tracks(lib.seq_abs([(0, vm, lo, 0, 64)], [("ts", 24, 3, 4)], 96))))
    out.append(("inexpressible_signature", tracks(lib.seq_abs([(0, vm, lo, 0, 64)], [("ts", 0, 3, 16)]))))
    out.append(("signature_out_of_range", tracks(lib.seq_abs([(0, vm, lo, 0, 64)], [("ts", 0, 17, 8)]))))
    s = lib.seq_abs([(0, 24, lo, 0, 64)])
    s.add_absolute_message(lib.on(12, lo, 0, 50))
    s.add_absolute_message(lib.off(24 + 12, lo, 0))
    out.append(("overlapping_same_pitch", tracks(s)))
    out.append(("pitch_out_of_range", tracks(lib.seq_abs([(0, vm, (lo - 1) if lo > 0 else hi, 0, 64), (24, vm, min(hi + 1, 127), 0, 64)]))))
    if hi < 127:
        out.append(("pitch_too_high_in_the_middle", tracks(lib.seq_abs([(0, vm, lo, 0, 64), (24, vm, hi + 1, 0, 64), (48, vm, lo, 0, 64)]))))
        out.append(("pitch_too_high_first", tracks(lib.seq_abs([(0, vm, hi + 1, 0, 64), (24, vm, hi, 0, 64), (48, vm, lo, 0, 64), (72, vm, hi, 0, 9)]))))
    if lo > 0:
        out.append(("pitch_too_low_in_the_middle", tracks(lib.seq_abs([(0, vm, hi, 0, 64), (24, vm, lo - 1, 0, 64), (48, vm, hi, 0, 64)]))))
    z = lib.seq_abs([(0, vm, lo, 0, 64)])
    z.add_absolute_message(lib.on(24, hi, 0, 0))          # a note-on whose velocity field is 0
    z.add_absolute_message(lib.off(24 + vm, hi, 0))
    out.append(("note_on_with_velocity_zero", tracks(z)))
    if 2 * vm in vals or True:
        f = lib.seq_abs([(0, 2 * vm, lo, 0, 64), (4 * vm, 2 * vm, hi, 0, 64)], [("ts", 0, 4, 4)], 192)
        try:
            f.scale(0.5, quantise_afterwards=False)        # integral float ticks (12.0): still an input tokenise accepts
            out.append(("float_ticks_from_halving", tracks(f)))
        except Exception:  # noqa: BLE001
            pass
    if cfg.get("float_sums"):
        for k in (3, 5, 6, 7, 9, 10, 11, 12):
            for v in (4, 6, 12):
                for m in range(1, v * k):
                    g = lib.seq_abs([(0, v * k, lo, 0, 64)], [("cc", m, 64, 100)], 96 * k)
                    try:
                        g.scale(1 / k, quantise_afterwards=False)
                        out.append((f"float_sum_1/{k}_{v}_{m}", tracks(g)))
                    except Exception:  # noqa: BLE001
                        pass
    odd = next(x for x in (5, 7, 10, 11, 13) if x not in vals)
    out.append(("value_not_allowed_in_the_middle", tracks(lib.seq_abs([(0, vm, lo, 0, 64), (24, odd, hi, 0, 64), (48, vm, lo, 0, 64)]))))
    bars = Sequence.sequences_split_bars([lib.seq_abs([(0, vm, lo, 0, 64), (72 + 24, vm, hi, 0, 90)], [("ts", 0, 3, 4)])], 0)[0]
    short = Bar.to_sequence(bars)
    out.append(("bars_rejoined", tracks(short)))
    if nt >= 2:
        out.append(("same_pitch_same_tick_two_tracks", tracks(lib.seq_abs([(0, vm, lo, 0, 64)]), [lib.seq_abs([(0, vm, lo, 0, 20)])])))
        out.append(("empty_first_track", tracks(Sequence(), [lib.seq_abs([(24, vm, hi, 0, 64)], [], 96)])))
    return out


def run_unit(cfg, acc, ctx):
    fl = cfg["fl"]
    for name, cond in (("unfused_velocity", not fl[3]), ("unfused_track", not fl[1]), ("unfused_value", not fl[2]),
                       ("no_running_values", not fl[0]), ("bins_gt_1", cfg["vb"] > 1), ("multi_track", cfg["nt"] > 1)):
        if cond:
            acc.flags[name] += 1
    suite_cfg = cfg["nt"] == 1 and cfg["vb"] == 1 and all(fl[1:]) and cfg["pr"] == (21, 108) and not cfg["nv"] and not cfg["st"]
    tags = {"velocity_bins": cfg["vb"], "fuse_velocity": fl[3]}
    case0 = {"cfg": cfg}
    for prev in cfg.get("before", []):
        # earlier tokenisers of the same process, built and used like a caller would
        pt = make_tok(prev)
        for name, seqs in pool(prev, pt)[:3]:
            try:
                pt.get_info(pt.tokenise(seqs))
            except TokenisationException:
                pass
        acc.flags["construction_history"] += 1

    def bad(sig, detail, extra=None):
        acc.violation(sig, dict(case0, **(extra or {})), detail, tags)
    try:
        t = make_tok(cfg)
    except Exception as e:  # noqa: BLE001
        acc.case(key=core.jkey(cfg), nontrivial=True)
        bad("construction_raises", f"{type(e).__name__}: {e}")
        return
    d, inv = t.dictionary, t.inverse_dictionary
    size = t.dictionary_size
    if not (size == len(d) == len(inv)):
        bad("reported_size_differs_from_entries", f"dictionary_size {size}, {len(d)} tokens, {len(inv)} ids")
    if sorted(d.values()) != list(range(len(d))):
        bad("ids_not_consecutive_from_zero", f"{len(d)} tokens, ids min {min(d.values())} max {max(d.values())} "
                                             f"distinct {len(set(d.values()))}")
    vb = t.velocity_bins
    if any(not isinstance(b, int) or isinstance(b, bool) for b in vb) or sorted(set(vb)) != list(vb) or vb[-1] != 127:
        # not itself a clause of C02, but recorded: it is the root cause of most vocabulary defects
        acc.flags["bin_table_irregular"] += 1
    n_tok_bad = 0
    for tok_, i in d.items():
        acc.case(key=None, nontrivial=not suite_cfg, transitions=3, validated=3)
        try:
            if t.decode(t.encode([tok_])) != [tok_]:
                bad("decode_encode_not_identity", f"token {tok_!r}", {"token": tok_})
            if i in inv and t.encode(t.decode([i])) != [i]:
                bad("encode_decode_not_identity", f"id {i}", {"token": tok_})
        except Exception as e:  # noqa: BLE001
            bad("encode_or_decode_raises_on_member", f"{tok_!r}: {type(e).__name__}: {e}", {"token": tok_})
        try:
            out = t.detokenise([tok_])
            if len(out) != cfg["nt"]:
                bad("detokenise_wrong_track_count", f"{tok_!r}: {len(out)}", {"token": tok_})
            acc.flags["member_detokenised"] += 1
        except Exception as e:  # noqa: BLE001
            n_tok_bad += 1
            if n_tok_bad <= 2:
                bad("detokenise_rejects_member", f"{tok_!r}: {type(e).__name__}: {e}", {"token": tok_})
    # closure
    for name, seqs in pool(cfg, t):
        acc.case(key=None, nontrivial=not suite_cfg, transitions=1, validated=1)
        try:
            toks = t.tokenise(seqs)
        except TokenisationException:
            acc.flags["rejection_observed"] += 1
            acc.outcomes.add("rejected:" + name)
            continue
        except Exception as e:  # noqa: BLE001
            bad("tokenise_raises_other_exception", f"{name}: {type(e).__name__}: {e}", {"input": name})
            continue
        acc.outcomes.add("accepted:" + name)
        if name == "piece_at_resolution" and cfg["ppqn"] >= 480:
            acc.flags["piece_at_high_resolution_accepted"] += 1
        if name in ("mid_bar_signature", "overlapping_same_pitch", "bars_rejoined"):
            acc.flags["irregular_input_accepted"] += 1
        acc.flags["closure_tokens_checked"] += len(toks)
        missing = [x for x in toks if x not in d]
        if missing:
            bad("emitted_token_not_in_vocabulary", f"{name}: {missing[:4]} (of {toks})", {"input": name})
            continue
        try:
            for cname in ("tuple", "generator", "iterator", "map"):
                ids = t.encode(lib.carriers(toks)[cname]())
                if t.decode(lib.carriers(ids)[cname]()) != toks:
                    bad("decode_encode_not_identity_on_stream", f"{name}: tokens handed over as {cname}", {"input": name})
                acc.flags["stream_handed_over_as_" + cname] += 1
            if t.decode(t.encode(toks)) != toks:
                bad("decode_encode_not_identity_on_stream", f"{name}", {"input": name})
            t.detokenise(toks)
        except Exception as e:  # noqa: BLE001
            bad("stream_rejected_downstream", f"{name}: {type(e).__name__}: {e}", {"input": name})
    if len(acc.samples) < 1 and not suite_cfg:
        acc.sample({"cfg": cfg, "vocabulary_size": len(d), "first_note_token": next((k for k in d if "pit" in k), None)})


def replay(case, ctx):
    acc = core.Acc()
    cfg = dict(case["cfg"])
    cfg["fl"] = tuple(cfg["fl"])
    cfg["pr"] = tuple(cfg["pr"])
    cfg["before"] = [dict(b, fl=tuple(b["fl"]), pr=tuple(b["pr"])) for b in cfg.get("before", [])]
    run_unit(cfg, acc, ctx)
    return [(v.sig, v.detail) for v in acc.viols]
