"""C11 - tick values stay integers through every operation (E2 on a workspace of live objects)."""
import re

from mc import core, lib
from scoda.elements.bar import Bar
from scoda.elements.composition import Composition
from scoda.sequences.sequence import Sequence
from scoda.tokenisation.notelike_tokenisation import MultiTrackLargeVocabularyNotelikeTokeniser as Tok

ENGINE = "E2-bfs"
RULE = ("breadth-first exploration of ALL histories up to the depth bound over a typed operation alphabet (quantise, "
        "quantise_note_lengths, normalise, pad, split, Bar(...), sequences_split_bars (both settings) + Bar.to_sequence, "
        "Composition.from_sequences/to_sequences, merge, concatenate, transpose, cutoff, scale 2/3, copy, tokenise whole / "
        "bar-by-bar, detokenise) on a workspace (sequence A, sequence B, token list); invariant on every state: every time "
        "value in both views of A and B is of type int and every tick-carrying token renders an integer; "
        "non-trivial = the transition pads a bar, splits with a remainder, splits into bars or builds a composition")
SCALE = ('tokenisers of odd resolution (45, 15) with odd-numerator signatures, x/64 and x/128 signatures in bar splitting and Bar(...); two long seeds (14 and 16 bars with rests of 10 and 11 bars beside tracks of 2-3 bars) explored to depth 2; split into 14 x 36 and 12 x 96 equal parts re-joined by concatenation; scale(1); detokenising hand-edited streams with a signature token behind a rest / in front of a bar token / behind a bar token')
ASSUMPTIONS = ["bool and numpy integer types do not count as 'integer type' for ticks"]
REQUIRED_FLAGS = ["bar_padded", "split_with_remainder", "tokens_checked", "detokenised", "bars_split", "composition_built",
                  "scaled", "wrapped_transpose", "split_many_equal_parts", "detokenised_edited_stream"]

TOKEN_RE = re.compile(r"^[a-z]+(_\d+)*(-[a-z]+(_\d+)+)*$")
_TOK = {}


# seeds 8 and 9 work with a tokeniser of odd resolution (bar capacities ppqn * n / 2 are then no whole numbers for odd n)
TOK_PPQN = {8: 45, 9: 15}


def tok(w=None):
    ppqn = w[3] if w is not None and len(w) > 3 else None
    if ppqn not in _TOK:
        _TOK[ppqn] = Tok(num_tracks=2, velocity_bins=1) if ppqn is None else Tok(num_tracks=2, velocity_bins=1, ppqn=ppqn)
    return _TOK[ppqn]


def make_seed(i, p):
    if i == 0:   # a bar's worth of music shorter than its capacity + a shorter second track
        return [lib.seq_abs([(0, 12, p, 0, 64), (12, 24, p + 4, 0, 50)], [], 60), lib.seq_abs([(0, 6, p + 7, 0, 70)], [], 30), []]
    if i == 1:   # two 3/4 bars and an empty second track
        return [lib.seq_abs([(0, 12, p, 0, 64), (66, 12, p + 2, 0, 64)], [("ts", 0, 3, 4)], 144), Sequence(), []]
    if i == 2:
        return [lib.seq_rel([(6, 6, p, 0, 64)], [("ts", 0, 4, 4)], 50), lib.seq_rel([(0, 36, p + 1, 0, 64), (90, 12, p + 3, 0, 9)], [], None), []]
    if i == 3:   # 6/8 with a note that is never closed (its release is missing) and a shorter second track
        a = lib.seq_abs([(0, 12, p, 0, 64), (40, 12, p + 2, 0, 64)], [("ts", 0, 6, 8)], None)
        a.add_absolute_message(lib.on(60, p + 5, 0, 70))
        return [a, lib.seq_abs([(0, 6, p + 7, 0, 70)], [], 30), []]
    if i == 4:   # 3/2: a bar shorter than its capacity, beside an empty track
        return [lib.seq_abs([(0, 24, p, 0, 64), (200, 12, p + 1, 0, 3)], [("ts", 0, 3, 2)], 230), Sequence(), []]
    if i == 6:   # scale: fourteen 4/4 bars with a general pause of ten bars in the middle, beside a track of two bars
        a = lib.seq_abs([(0, 12, p, 0, 64), (100, 24, p + 2, 0, 64), (1250, 12, p + 4, 0, 60), (1300, 30, p + 5, 0, 61)], [], 1344)
        return [a, lib.seq_abs([(0, 6, p + 7, 0, 70), (110, 12, p + 8, 0, 71)], [], 150), []]
    if i == 7:   # scale: 3/4, sixteen bars, forty notes, a rest of eleven bars; second track three bars, relative build
        ns = [(6 * k, 5, p + k % 5, k % 2, 30 + k) for k in range(20)] + [(1000 + 7 * k, 6, p + k % 5, k % 2, 60 + k) for k in range(20)]
        return [lib.seq_rel(ns, [("ts", 0, 3, 4)], 1152), lib.seq_rel([(0, 36, p + 1, 0, 64), (150, 12, p + 3, 0, 9)], [], None), []]
    if i == 8:   # 5/8 (tokeniser resolution 45: capacity 112.5), two bars
        return [lib.seq_abs([(0, 12, p, 0, 64), (120, 12, p + 2, 0, 64)], [("ts", 0, 5, 8)], 224),
                lib.seq_abs([(0, 6, p + 7, 0, 70)], [], 30), []]
    if i == 9:   # 7/8 (tokeniser resolution 15: capacity 52.5), relative build
        return [lib.seq_rel([(6, 6, p, 0, 64), (84, 12, p + 1, 0, 9)], [("ts", 0, 7, 8)], 168), Sequence(), []]
    if i == 10:  # fine denominators: 5/64 (7.5 ticks), then 6/64 (9 ticks), then 3/128 (2.25 ticks)
        return [lib.seq_abs([(0, 6, p, 0, 64), (14, 12, p + 2, 0, 64), (40, 3, p + 4, 0, 64)],
                            [("ts", 0, 5, 64), ("ts", 14, 6, 64), ("ts", 41, 3, 128)], 48),
                lib.seq_abs([(0, 6, p + 7, 0, 70)], [], 20), []]
    # 7/8 then 5/16, ticks in the hundreds, unequal lengths
    return [lib.seq_abs([(0, 36, p, 0, 64), (90, 6, p + 2, 0, 64)], [("ts", 0, 7, 8), ("ts", 84, 5, 16)], 120),
            lib.seq_rel([(300, 12, p + 3, 0, 64)], [], None), []]


def _split(w, i):
    pieces = w[i].split([30])
    if len(pieces) >= 2:
        w[i], w[1 - i] = pieces[0], pieces[1]
        return "split_with_remainder"
    if pieces:
        w[i] = pieces[0]


def _split_equal(c, k):
    def f(w, i):
        pieces = w[i].split([c] * k)
        if not pieces:
            return None
        w[1 - i] = pieces[-1]
        w[i] = pieces[0]
        if len(pieces) > 1:
            w[i].concatenate(pieces[1:])        # every piece stays reachable through the joined sequence
        return "split_many_equal_parts"
    return f


def _bar(w, i, n=4, d=4):
    dur = lib.view_rel(w[i])[1]
    b = Bar(w[i], n, d)
    w[i] = b.sequence
    return "bar_padded" if dur < 96 * n // d else None


def _barsig(n, d):
    return lambda w, i: _bar(w, i, n, d)


def _bars(w, q):
    bars = Sequence.sequences_split_bars([w[0], w[1]], 0, quantise_note_lengths=q)
    w[0], w[1] = Bar.to_sequence(bars[0]), Bar.to_sequence(bars[1])
    return "bars_split"


def _comp(w):
    c = Composition.from_sequences([w[0], w[1]])
    s = c.to_sequences()
    w[0], w[1] = s[0], s[1]
    return "composition_built"


def _tok_whole(w):
    w[2] = tok(w).tokenise([w[0], w[1]])
    return "tokens_checked"


def _tok_bars(w):
    bars = Sequence.sequences_split_bars([w[0], w[1]], 0)
    sd, out = {}, []
    for k in range(len(bars[0])):
        out += tok(w).tokenise([bars[0][k].sequence, bars[1][k].sequence], state_dict=sd)
    w[2] = out
    return "tokens_checked"


def _detok(w):
    if not w[2]:
        raise ValueError("no tokens")
    s = tok(w).detokenise(w[2])
    w[0], w[1] = s[0], s[1]
    return "detokenised"


def _stream(w):
    """a stream as a model would emit it, written by hand from the tokeniser's own vocabulary: odd and even signatures,
    bars that are under-full, exactly full and closed at once"""
    d = tok(w).dictionary
    n0 = next(t for t in d if t.startswith("trk_00-"))
    n1 = next(t for t in d if t.startswith("trk_01-"))
    w[2] = ["tsg_03_08", "rst_06", n0, "bar", n1, "rst_24", "bar", "tsg_05_08", n0, "rst_12", "bar", "bar", "tsg_04_08", n1, "rst_04",
            "bar", "tsg_07_08", "rst_24", n0, "bar", n1]
    return "tokens_checked"


def _detok_edited(where):
    """detokenise a hand-edited stream: the current token list with a time-signature token put behind the first rest
    inside a bar / in front of the second bar token / directly behind the first bar token (as a model would emit it)"""
    def f(w):
        if not w[2]:
            raise ValueError("no tokens")
        toks = list(w[2])
        sig = next(t for t in tok(w).dictionary if t.startswith("tsg_") and t not in toks[:3])
        if where == "behind_rest":
            k = next((i for i, t in enumerate(toks) if t.startswith("rst_")), None)
        elif where == "before_bar":
            bars = [i for i, t in enumerate(toks) if t == "bar"]
            k = bars[1] - 1 if len(bars) > 1 else (bars[0] - 1 if bars else None)
        else:
            k = next((i for i, t in enumerate(toks) if t == "bar"), None)
        if k is None:
            raise ValueError("no place")
        toks.insert(k + 1, sig)
        s = tok(w).detokenise(toks)
        w[0], w[1], w[2] = s[0], s[1], toks
        return "detokenised_edited_stream"
    return f


def _u(fn, flag=None):
    def f(w, i):
        fn(w[i])
        return flag
    return f


def _helper_steps():
    from scoda.misc.util import get_default_step_sizes
    return get_default_step_sizes(upper_bound_shift=1)


def _helper_values():
    from scoda.misc.util import get_note_durations, get_tuplet_durations, get_dotted_note_durations
    base = get_note_durations(2, 4)
    return base + get_tuplet_durations(base, 3, 2) + get_dotted_note_durations(base, 1)


UNARY = {
    "quantise": _u(lambda s: s.quantise()),
    # grids and value lists as the library's own public helpers return them for non-default integer arguments
    "quantise_helper_grid": _u(lambda s: s.quantise(_helper_steps())),
    "qnl_helper_values": _u(lambda s: s.quantise_note_lengths(_helper_values())),
    "quantise46": _u(lambda s: s.quantise([4, 6])),
    "qnl": _u(lambda s: s.quantise_note_lengths()),
    "qnl_dne": _u(lambda s: s.quantise_note_lengths(do_not_extend=True)),
    "qan": _u(lambda s: s.quantise_and_normalise()),
    "normalise": _u(lambda s: s.normalise()),
    "pad100": _u(lambda s: s.pad(100)),
    "transpose+1": _u(lambda s: s.transpose(1)),
    "transpose+100": _u(lambda s: s.transpose(100), "wrapped_transpose"),
    "cutoff": _u(lambda s: s.cutoff(12, 6)),
    "scale1": _u(lambda s: s.scale(1), "scaled"),
    "scale1_nq": _u(lambda s: s.scale(1, quantise_afterwards=False), "scaled"),
    "scale2": _u(lambda s: s.scale(2), "scaled"),
    "scale3": _u(lambda s: s.scale(3, quantise_afterwards=False), "scaled"),
    "split30": _split,
    "split36x14": _split_equal(36, 14),
    "split96x12": _split_equal(96, 12),
    "bar44": _bar,
    "bar32": _barsig(3, 2),
    "bar22": _barsig(2, 2),
    "bar78": _barsig(7, 8),
    "bar516": _barsig(5, 16),
    "bar564": _barsig(5, 64),
    "bar664": _barsig(6, 64),
}
BINARY = {
    "copyA_to_B": lambda w: w.__setitem__(1, w[0].copy()),
    "A_merge_B": lambda w: w[0].merge([w[1]]),
    "A_concat_B": lambda w: w[0].concatenate([w[1]]),
    "B_concat_A": lambda w: w[1].concatenate([w[0]]),
    "bars_q": lambda w: _bars(w, True),
    "bars_nq": lambda w: _bars(w, False),
    "composition": _comp,
    "tokenise": _tok_whole,
    "tokenise_bars": _tok_bars,
    "detokenise": _detok,
    "handwritten_stream": _stream,
    "detok_sig_behind_rest": _detok_edited("behind_rest"),
    "detok_sig_before_bar": _detok_edited("before_bar"),
    "detok_sig_behind_bar": _detok_edited("behind_bar"),
}
OPNAMES = [f"{n}:{i}" for n in UNARY for i in (0, 1)] + list(BINARY)


def context(tier, seed):
    depth = 3 if tier == "quick" else 4
    return {"p": [60, 40, 90][seed % 3], "depth": depth, "tier": tier,
            "bounds": {"depth": depth, "operations": OPNAMES, "seeds": 11,
                       "long_seeds": "seeds 6 and 7 (14-16 bars, rests of 10-11 bars) are explored to depth 2"}}


def seeds(ctx):
    return 11


def apply(w, name):
    if ":" in name:
        n, i = name.split(":")
        return UNARY[n](w, int(i))
    return BINARY[name](w)


def build(seed_i, hist, ctx):
    w = make_seed(seed_i, ctx["p"])
    w.append(TOK_PPQN.get(seed_i))
    for h in hist:
        apply(w, h)
    return w


def key_of(w, ctx):
    # concatenate / Bar.to_sequence share Message objects between the two sequences: the aliasing pattern is part of
    # the state (two workspaces with equal content but different sharing have different futures)
    ids, alias = {}, []
    for s in (w[0], w[1]):
        for view in (None if s._abs_stale else s._abs, None if s._rel_stale else s._rel):   # fresh views only
            if view is not None:
                for m in view._messages:
                    alias.append(ids.setdefault(id(m), len(ids)))
    return hash((lib.raw_repr(w[0]), lib.raw_repr(w[1]), tuple(w[2]), tuple(alias), w[3] if len(w) > 3 else None))


def enabled(w, seed_i, hist, ctx):
    if seed_i in (6, 7) and len(hist) >= 2:
        return []
    return OPNAMES


def invariant(w):
    bad = []
    for nm, s in (("A", w[0]), ("B", w[1])):
        for vn, view in (("abs", lib.view_abs), ("rel", lib.view_rel)):
            types = view(s)[2]
            if not types <= {int}:
                bad.append(("non_integer_tick", f"sequence {nm} {vn} view has time values of type "
                                                f"{sorted(t.__name__ for t in types - {int})}"))
    for t in w[2]:
        if not TOKEN_RE.match(t):
            bad.append(("token_renders_non_integer", f"token {t!r}"))
            break
    return bad


def check_step(w, op, ctx):
    try:
        flag = apply(w, op)
    except Exception as e:  # noqa: BLE001
        return [], False, "raises:" + op.split(":")[0] + ":" + type(e).__name__
    try:
        return invariant(w), True, flag
    except Exception as e:  # noqa: BLE001
        return [("state_unreadable", f"after {op}: {type(e).__name__}: {e}")], False, flag


def step(w, op, seed_i, hist, acc, ctx):
    viols, ok, flag = check_step(w, op, ctx)
    hflags = set()
    if isinstance(flag, str) and not flag.startswith("raises:"):
        acc.flags[flag] += 1
        hflags.add(flag)
    elif isinstance(flag, str):
        acc.outcomes.add(flag)
    # a property of the transition itself (not of the representative history): padding, a split with remainder,
    # bar splitting or composition building happened in this step
    nontrivial = bool(hflags & {"bar_padded", "split_with_remainder", "bars_split", "composition_built"})
    acc.case(key=None, nontrivial=nontrivial)
    acc.outcomes.add(op.split(":")[0] + (":ok" if ok else ":stop"))
    case = {"seed": seed_i, "hist": list(hist), "op": op}
    for sig, detail in viols:
        acc.violation(sig, case, detail, {"op": op.split(":")[0]})
    if len(hist) == 2 and op == "tokenise" and ok and len(acc.samples) < 1:
        acc.sample(case)
    if not ok or viols:
        return None, None
    return key_of(w, ctx), None


def replay(case, ctx):
    w = build(case["seed"], case["hist"], ctx)
    return check_step(w, case["op"], ctx)[0]
