"""C05 - quantise puts every event on the grid and keeps every note well-formed (E1)."""
import itertools

from mc import core, hist, lib

ENGINE = "E1-sweep"
TICK_EVERY = 5      # every 5th case of every unit is repeated with numpy integer ticks (int64 / int32)
RULE = ("all well-formed note sets over the tick lattice (pairs over the full lattice, triples/quads around one "
        "grid point, notes + 1-2 signature events, colliding pair + far survivor) x 7 step lists; "
        "distinct = distinct (steps, notes, events); non-trivial = some event moves or some note is dropped")
SCALE = ('16-120 notes (long) and the ladder 33..1025 notes at ticks up to ~38000 with step lists of common period 5040 / 143 / 240 / 48 / 4, dozens of collapsing notes beside surviving long ones, an event on the last tick; control and program changes; restated signatures built through either representation; numpy integer ticks every 5th case')
ASSUMPTIONS = ["input sequences are well-formed (property precondition)",
               "tie-breaking between equidistant grid points and the choice of surviving note are not demanded"]
REQUIRED_FLAGS = ["built_through_the_relative_representation", "step_list_object_reused", "after_history", "same_pitch_two_channels", "note_dropped", "event_moved", "isolated_note_checked",
                  "collapse_candidate", "non_note_event"]

STEP_LISTS = [[4], [6], [8], [4, 6], [6, 4], [3, 4], [8, 12]]
PITCH_VARIANTS = [60, 21, 107, 64]
CHAN_VARIANTS = [(0, 1), (2, 9), (0, 15)]


def context(tier, seed):
    p = PITCH_VARIANTS[seed % len(PITCH_VARIANTS)]
    ch = CHAN_VARIANTS[(seed // len(PITCH_VARIANTS)) % len(CHAN_VARIANTS)]
    return {"p": p, "ch": ch, "tier": tier,
            "bounds": {"step_lists": STEP_LISTS, "pitches": [p, p + 1], "channels": list(ch),
                       "pairs_lattice": "onset 0..(S+2 quick | 2S+2 thorough), length 1..S+2",
                       "cell_alphabet": "onset S-2..S+2, lengths {1,2,S} quick / {1,2,3,S-1,S,S+1} thorough",
                       "max_notes": 3 if tier == "quick" else 4, "events": "0-2 of {ts 3/4, ks G} on every lattice tick"}}


def _alpha(ctx, onsets, lengths, classes=None):
    p, (c0, c1) = ctx["p"], ctx["ch"]
    classes = classes or [(p, c0), (p + 1, c0), (p, c1), (p + 1, c1)]
    return [(o, l, pp, cc) for o in onsets for l in lengths for (pp, cc) in classes]


def units(ctx):
    quick = ctx["tier"] == "quick"
    for si, steps in enumerate(STEP_LISTS):
        S = max(steps)
        yield ("single", si)
        omax = S + 2 if quick else 2 * S + 2
        for o1 in range(0, omax + 1):
            yield ("pairs", si, o1)
        yield ("events", si)
        cell = _alpha(ctx, range(S - 2, S + 3), [1, 2, S] if quick else [1, 2, 3, S - 1, S, S + 1])
        for i in range(len(cell)):
            yield ("triples", si, i)
        yield ("survivor", si)
        if not quick:
            cell4 = _alpha(ctx, range(S - 1, S + 2), [1, 2, S])
            for i in range(len(cell4)):
                yield ("quads", si, i)
    yield from hist.hist_units()
    yield ("long",)
    for k in range(len(lib.LADDER)):
        yield ("scale", k)
    for wi in range(len(WIDE)):
        for i in range(12):
            yield ("wide", wi, i)


WIDE = [([120, 80], 160, 3), ([80, 120], 240, 3), ([30, 50], 100, 2), ([50, 30], 90, 2)]   # (steps, grid point, spacing)


def _wide_alpha(ctx, wi):
    steps, g, sp = WIDE[wi]
    p, (c0, c1) = ctx["p"], ctx["ch"]
    ons = [g - 6 * sp + k * sp for k in range(8)]
    return [(o, l, p, c) for o in ons for l in (sp - 1, 7 * sp) for c in (c0,)] + [(ons[2], sp - 1, p, c1), (ons[4], 7 * sp, p + 1, c0)]


def _mk(notes):
    # distinct velocities make every note identifiable in the output
    return [[n[0], n[1], n[2], n[3], 40 + 7 * i] for i, n in enumerate(notes)]


def gen_cases(unit, ctx):
    if unit[0] == "long":
        # scale: dozens to a hundred notes on three channels, ticks in the hundreds
        for n in (16, 48, 120):
            for step in (5, 7):
                for steps in ([4], [6, 4], [8, 12], [120, 80], [3, 4]):
                    ns = lib.long_desc(n, ctx["p"] - 2, (ctx["ch"][0], ctx["ch"][1], 9), step)
                    yield {"steps": steps, "notes": [list(x) for x in ns], "events": [["ts", 0, 3, 4], ["ks", step * n // 2, "G"]]}
        return
    if unit[0] == "scale":
        # scale ladder: 33 ... 1025 notes, ticks up to tens of thousands, step lists whose common period is large
        # (5040, 143, 240), short notes that collapse by the dozen next to long ones that survive, an event at the very end
        n = lib.LADDER[unit[1]]
        p, (c0, c1) = ctx["p"], ctx["ch"]
        for step, lens in ((37, (3, 4, 5, 60)), (9, (2, 2, 2, 2))):
            ns = [list(x) for x in lib.long_desc(n, p - 2, (c0, c1, 9), step, lens=lens)]
            end = step * n
            tail = [[end + 10, 300, p + 9, c0, 99], [end + 400, 190, p + 9, c1, 98]]
            for steps in ([9, 7, 5, 16], [11, 13], [120, 80], [4], [24, 12, 6, 16, 8, 4]):
                yield {"steps": steps, "notes": ns + tail, "events": [["ts", 0, 3, 4], ["ks", end // 2, "G"], ["ks", end + 600, "D"]]}
                yield {"steps": steps, "notes": ns + tail[:1], "events": []}
        return
    if unit[0] == "hist":
        for h in hist.hist_of_unit(unit):
            for steps in ([4], [6, 4], [8, 12], [120, 80]):
                yield {"seed": unit[1], "build": unit[2], "hist": h, "steps": steps}
            yield {"seed": unit[1], "build": unit[2], "hist": h, "steps": [8, 12], "reuse_list_after": [7]}
        return
    quick = ctx["tier"] == "quick"
    kind, si = unit[0], unit[1]
    if kind == "wide":
        al = _wide_alpha(ctx, si)
        i = unit[2]
        if i < len(al):
            for j in range(i + 1, len(al)):
                if lib.well_formed([al[i], al[j]]):
                    yield {"steps": WIDE[si][0], "notes": _mk([al[i], al[j]]), "events": []}
                    for k in range(j + 1, len(al)):
                        if lib.well_formed([al[i], al[j], al[k]]):
                            yield {"steps": WIDE[si][0], "notes": _mk([al[i], al[j], al[k]]), "events": []}
                            if not quick:
                                for m in range(k + 1, len(al)):
                                    if lib.well_formed([al[i], al[j], al[k], al[m]]):
                                        yield {"steps": WIDE[si][0], "notes": _mk([al[i], al[j], al[k], al[m]]), "events": []}
        return
    steps = STEP_LISTS[si]
    S = max(steps)
    p, (c0, c1) = ctx["p"], ctx["ch"]
    omax = S + 2 if quick else 2 * S + 2
    lens = range(1, S + 3)
    if kind == "single":
        yield {"steps": steps, "notes": [], "events": []}
        for n in _alpha(ctx, range(0, 2 * S + 3), lens, [(p, c0)]):
            yield {"steps": steps, "notes": _mk([n]), "events": []}
    elif kind == "pairs":
        o1 = unit[2]
        second = _alpha(ctx, range(0, 2 * S + 3), lens)
        for l1 in lens:
            n1 = (o1, l1, p, c0)
            for n2 in second:
                if (n2[2], n2[3]) == (p, c0) and n2[:2] <= n1[:2]:
                    continue  # unordered pair of the same class: keep one order
                if lib.well_formed([n1, n2]):
                    yield {"steps": steps, "notes": _mk([n1, n2]), "events": []}
    elif kind == "events":
        evs = [["ts", 3, 4], ["ks", "G"], ["cc", 64, 100], ["pc", 5]]
        ticks = range(0, 2 * S + 3)
        notes_opts = [[]] + [[n] for n in _alpha(ctx, [0, S - 1, S + 1], [1, S], [(p, c0)])]
        for ns in notes_opts:
            for t1 in ticks:
                for e1 in evs:
                    ev1 = [e1[0], t1] + e1[1:]
                    yield {"steps": steps, "notes": _mk(ns), "events": [ev1]}
                    if e1[0] in ("ts", "ks"):
                        # the same signature stated again later (a 4/4 marker at the start of every bar): still an event
                        # that has to be kept; built through either representation
                        for t2 in ticks:
                            if t2 > t1:
                                for b in ("abs", "rel"):
                                    yield {"steps": steps, "notes": _mk(ns), "events": [ev1, [e1[0], t2] + e1[1:]], "build": b}
                    if e1[0] in ("ts", "cc"):
                        for t2 in ticks:
                            yield {"steps": steps, "notes": _mk(ns), "events": [ev1, ["ks", t2, "G"] if e1[0] == "ts" else ["pc", t2, 7]]}
    elif kind == "triples":
        cell = _alpha(ctx, range(S - 2, S + 3), [1, 2, S] if quick else [1, 2, 3, S - 1, S, S + 1])
        i = unit[2]
        for j in range(i + 1, len(cell)):
            if not lib.well_formed([cell[i], cell[j]]):
                continue
            for k in range(j + 1, len(cell)):
                ns = [cell[i], cell[j], cell[k]]
                if lib.well_formed(ns):
                    yield {"steps": steps, "notes": _mk(ns), "events": []}
    elif kind == "quads":
        cell = _alpha(ctx, range(S - 1, S + 2), [1, 2, S])
        i = unit[2]
        for c in itertools.combinations(range(i + 1, len(cell)), 3):
            ns = [cell[i]] + [cell[x] for x in c]
            if lib.well_formed(ns):
                yield {"steps": steps, "notes": _mk(ns), "events": []}
    elif kind == "survivor":
        near = _alpha(ctx, range(S - 2, S + 2), [1, 2], [(p, c0), (p, c1)])
        for a, b in itertools.combinations(near, 2):
            if not lib.well_formed([a, b]):
                continue
            for r in range(0, S):
                for l in (1, 2, S - 1, S + 1):
                    for cls in ((p, c0), (p + 1, c0)):
                        far = (5 * S + r, l, cls[0], cls[1])
                        yield {"steps": steps, "notes": _mk([a, b, far]), "events": []}


def _candidates(t, steps):
    left = [(t // s) * s for s in steps]
    return left + [l + s for l, s in zip(left, steps)]


def _match(outs, ins, S):
    """injective matching outs -> ins with |delta| <= S (tiny backtracking)."""
    outs, ins = sorted(outs), sorted(ins)
    if len(outs) > len(ins):
        return False

    def rec(i, used):
        if i == len(outs):
            return True
        for j, t in enumerate(ins):
            if j not in used and abs(t - outs[i]) <= S and rec(i + 1, used | {j}):
                return True
        return False
    return rec(0, frozenset())


def check_case(case, ctx):
    R = core.Res()
    steps = case["steps"]
    S = max(steps)
    if "hist" in case:
        live = hist.live_case(case, R, ctx["p"], *ctx["ch"], hp=ctx["p"] - 20)
        if live is None:
            return R
        s, notes, events, _ = live
        steps_obj = list(steps)
        if case.get("reuse_list_after"):
            # the caller's own list object: quantise with it, change it in place, quantise again
            steps_obj = list(case["reuse_list_after"])
            s.quantise(steps_obj)
            from mc.hist import observe_desc
            d2 = observe_desc(s)
            if d2 is None:
                R.outcome = "first_quantise_leaves_unobservable_state"
                return R
            notes, events = [list(n) for n in d2[0]], [list(e) for e in d2[1]]
            steps_obj[:] = steps
            R.flags.append("step_list_object_reused")
        # identify notes by velocity in the oracle below: velocities must be distinct
        if len({n[4] for n in notes}) < len(notes):
            R.outcome = "history_duplicates_velocities"
            return R
    else:
        notes, events = case["notes"], case["events"]
        s = lib.seq_rel(notes, events) if case.get("build") == "rel" else lib.seq_abs(notes, events)
        if case.get("build") == "rel":
            R.flags.append("built_through_the_relative_representation")
    in_ev, _, _ = lib.view_abs(s)
    try:
        s.quantise(steps_obj if "hist" in case else list(steps))
        out_ev, _, _ = lib.view_abs(s)
    except Exception as e:  # noqa: BLE001
        R.bad("quantise_raises", f"{type(e).__name__}: {e}")
        R.nontrivial = True
        return R
    chs = {n[3] for n in notes}
    if len({(n[2]) for n in notes}) < len({(n[2], n[3]) for n in notes}):
        R.flags.append("same_pitch_two_channels")
    if events:
        R.flags.append("non_note_event")
    # 1 grid
    for e in out_ev:
        if not any(e[0] % st == 0 for st in steps):
            R.bad("event_off_grid", f"{e} not divisible by any of {steps}")
    # 2 matching / displacement, per identity class
    def classes(evs):
        d = {}
        for e in evs:
            d.setdefault(e[1:], []).append(e[0])
        return d
    cin, cout = classes(in_ev), classes(out_ev)
    for k, outs in cout.items():
        if not _match(outs, cin.get(k, []), S):
            R.bad("event_moved_too_far_or_invented", f"class {k}: out ticks {sorted(outs)} vs in ticks {sorted(cin.get(k, []))}, S={S}")
    # 4 non-note events all kept
    for k, ins in cin.items():
        if k[0] not in ("note_on", "note_off") and len(cout.get(k, [])) != len(ins):
            R.bad("non_note_event_lost", f"{k}: in {ins} out {cout.get(k, [])}")
    # 3 pairing
    onotes, orphans, retrig, unclosed = lib.pair_notes(out_ev)
    if orphans or unclosed or retrig:
        R.bad("notes_not_paired", f"orphans={orphans} retriggers={retrig} unclosed={unclosed} out={out_ev}")
    for n in onotes:
        if n[3] - n[2] <= 0:
            R.bad("non_positive_length", f"{n}")
    # 5 survival of isolated notes
    by_vel = {n[4]: n for n in onotes}
    unique_vel = len({n[4] for n in notes}) == len(notes)     # the small families; the scale families repeat velocities
    for n in notes:
        o, l, pp, cc, v = n
        others = [m for m in notes if m is not n and (m[2], m[3]) == (pp, cc)]
        if any(not (m[0] - (o + l) >= 2 * S or o - (m[0] + m[1]) >= 2 * S) for m in others):
            continue
        R.flags.append("isolated_note_checked")
        cs = _candidates(o, steps)
        dmin = min(abs(c - o) for c in cs)
        starts = {c for c in cs if abs(c - o) == dmin}
        ends = _candidates(o + l, steps)
        may_drop = any(not any(e > q for e in ends) for q in starts)
        if may_drop:
            R.flags.append("collapse_candidate")
        if unique_vel:
            got = by_vel.get(v)
        else:
            got = next((m for m in onotes if m[4] == v and (m[0], m[1]) == (cc, pp) and abs(m[2] - o) <= S), None)
        if got is None:
            if not may_drop:
                R.bad("isolated_note_dropped", f"note {n} vanished; out notes {onotes}")
        elif (got[0], got[1]) != (cc, pp):
            R.bad("survivor_changed_identity", f"note {n} became {got}")
    if len(onotes) < len(notes):
        R.flags.append("note_dropped")
        R.nontrivial = True
    if sorted(in_ev) != sorted(out_ev):
        R.flags.append("event_moved")
        R.nontrivial = True
    R.outcome = f"kept{len(onotes)}of{len(notes)}" + ("+moved" if sorted(in_ev) != sorted(out_ev) else "")
    R.tags = {"channels": len(chs), "n_notes": len(notes)}
    return R


import sys  # noqa: E402

_m = sys.modules[__name__]
run_unit = core.std_run_unit(_m)
replay = core.std_replay(_m)
