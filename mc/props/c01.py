"""C01 - tokenise, encode, decode, detokenise reproduces every valid piece exactly (E1)."""
import itertools
import sys

from mc import core, lib
from scoda.sequences.sequence import Sequence
from scoda.tokenisation.notelike_tokenisation import MultiTrackLargeVocabularyNotelikeTokeniser as Tok

ENGINE = "E1-sweep"
FRESH_WORKERS = True     # every unit starts from the import state of the library (no tokeniser built before)
RULE = ("pieces described abstractly as (bar plan, per-track note lists, trailing cap) and built through "
        "add_absolute_message: (a) one track, ALL note sets up to the size bound over every bar plan x cap variants x flag "
        "sets; (b) 2-3 tracks incl. empty tracks, unequal lengths, same pitch at the same tick on different tracks x "
        "velocity-bin counts; (c) the configuration lattice (flags x velocity_bins x tracks x pitch ranges x note-value sets) "
        "over a fixed pool of pieces containing every shape class; each round trip tokenise->encode->decode->detokenise is "
        "compared with the description-derived expectation. non-trivial = >=2 notes or a rest crossing a bar line or a "
        "signature change or >=2 tracks")
SCALE = ('pieces of 8-12 bars with up to three tracks of dozens of notes; pauses of 17/33/65/129/300 completely silent bars (4/4 and 3/8); every velocity 1..127 once under 13 bin counts from 1 to 128 (fused and unfused); bar-by-bar hand-over with one state dictionary incl. one rejected call; signatures written at a limit (1/4, 1/1, 18/16, 32/16, 2/1 ...); two notes at every pair of onsets of a 4/4 bar whose rests the step sizes can express')
ASSUMPTIONS = ["signature labels are not compared (6/8 and 3/4 render alike), only bar lengths",
               "output channel numbers are not compared; track index is",
               "the velocity-bin value is looked up in the tokeniser's own table by the harness's linear search"]
REQUIRED_FLAGS = ["track_channel_not_zero", "configuration_history", "rest_crosses_bar_line", "signature_change", "multi_track", "same_pitch_same_tick_two_tracks", "empty_track",
                  "unequal_track_lengths", "note_overhangs_last_bar_line", "last_onset_on_bar_line_without_cap",
                  "trailing_empty_bar", "velocity_binned", "unfused_all", "no_running_values", "non_default_note_values",
                  "bar_by_bar_with_state_dictionary", "rejected_call_then_repeated_with_the_valid_bar"]

SIG = {"44": (4, 4), "34": (3, 4), "24": (2, 4), "68": (6, 8), "58": (5, 8), "22": (2, 2), "38": (3, 8),
       # every other way of writing a whole number of eighths between 2 and 16 with numerator or denominator at a limit
       "1_4": (1, 4), "1_2": (1, 2), "1_1": (1, 1), "18_16": (18, 16), "2_8": (2, 8), "16_8": (16, 8), "4_16": (4, 16),
       "3_2": (3, 2), "2_1": (2, 1), "9_8": (9, 8), "15_8": (15, 8), "32_16": (32, 16), "7_8": (7, 8), "12_8": (12, 8),
       # the same bars written with fine denominators (a beat of 1.5 or 0.75 ticks)
       "16_64": (16, 64), "24_64": (24, 64), "40_64": (40, 64), "48_128": (48, 128), "12_32": (12, 32), "20_32": (20, 32)}   # a 36-tick note fills a 3/8 bar
FL = list(itertools.product((True, False), repeat=4))   # running, fuse_track, fuse_value, fuse_velocity


def blen(sig):
    return 96 * sig[0] // sig[1]


def plans(B):
    for k in range(1, B + 1):
        for pl in itertools.product([None] + list(SIG)[:7], repeat=k):
            if None in pl[1:]:
                continue
            yield list(pl)


def grid(plan):
    st, cur, sigs = [0], (4, 4), []
    for s in plan:
        if s is not None:
            cur = SIG[s]
        sigs.append(cur)
        st.append(st[-1] + blen(cur))
    return st, sigs


def context(tier, seed):
    B = 2 if tier == "quick" else 3
    return {"tier": tier, "B": B, "bounds": {"max_planned_bars": B, "plans": len(list(plans(B))), "flag_sets": 16,
                                             "max_notes_one_track": 2 if tier == "quick" else 3,
                                             "velocity_bins": [1, 2, 3, 4, 8] + ([] if tier == "quick" else [5, 15, 16, 19, 32, 64, 100, 127]),
                                             "tracks": [1, 3]}}


def units(ctx):
    for i, _ in enumerate(plans(ctx["B"])):
        yield ("a1", i)
        for j in range(6):
            yield ("a2", i, j)
        if ctx["tier"] != "quick" and i < 49:
            for j in range(12):
                yield ("a3", i, j)
    for pi in range(3):
        for nt in (2, 3):
            for j in range(4):
                yield ("b", pi, nt, j)
    for k in range(len(CONFIG_HISTORIES)):
        yield ("d", k)
    for k in range(4):
        yield ("long", k)
    for K in (17, 33, 65, 129, 300):
        yield ("pause", K)
    for k in range(4):
        yield ("barwise", k)
    for s_ in list(SIG)[7:]:
        yield ("sigs", s_)
    for o1 in range(0, 48):
        yield ("onsets", o1)
    for vb in (1, 2, 3, 5, 8, 16, 17, 19, 32, 33, 64, 127, 128):
        yield ("velsweep", vb)
    for vb in ([1, 2, 3, 4, 8] if ctx["tier"] == "quick" else [1, 2, 3, 4, 5, 8, 15, 16, 19, 32, 64, 100, 127]):
        for nt in (1, 2, 3):
            for pr in range(3):
                for nv in range(3):
                    yield ("c", vb, nt, pr, nv)


STEPS = (24, 16, 12, 8, 6, 4, 3, 2)      # the tokeniser's default step sizes


def greedy_ok(r):
    """can a rest of r ticks be written largest-step-first with the default step sizes?"""
    while r > 0:
        s_ = next((x for x in STEPS if x <= r), None)
        if s_ is None:
            return False
        r -= s_
    return True


def alphabet(plan, pitches=(21, 108), vel=64):
    st, _ = grid(plan)
    al = []
    for b in range(len(plan)):
        s, e = st[b], st[b + 1]
        for o in sorted({s, s + 6, s + 12, e - 12, e - 6}):
            if s <= o < e and (o % 4 == 0 or o % 6 == 0):
                for d in (6, 12, 36):
                    for p in pitches:
                        al.append((o, d, p, vel))
    return al


def wf(ns):
    return not any(a is not b and a[2] == b[2] and a[0] < b[0] + b[1] and b[0] < a[0] + a[1] for a in ns for b in ns)


def piece(plan, tracks, cap, cfg, vb=1, pr=(21, 108), nv=None):
    return {"plan": plan, "tracks": [[list(n) for n in t] for t in tracks], "cap": cap, "fl": list(cfg), "vb": vb,
            "pr": list(pr), "nv": nv}


PRS = [(21, 108), (60, 61), (0, 127)]
NVS = [None, [6, 12, 36], [12]]


def pool(pr, nv, nt):
    """fixed pool of pieces containing every shape class, fitted to a pitch range / value set / track count"""
    lo, hi = pr
    vals = sorted(nv) if nv else [6, 12, 36]
    a, b = vals[0], vals[-1]
    out = []
    for plan in ([None], ["34", "44"], ["68"], ["58", "22"], ["24", "24"]):
        st, _ = grid(plan)
        e = st[-1]
        shapes = [
            [(0, a, lo, 64)], [(0, b, hi, 1)], [(st[1] - 12, b, lo, 127)], [(12, a, lo, 33), (12, a, hi, 96)],
            [(0, a, lo, 97), (e - 12, a, lo, 64)], [(6 if a == 6 else 12, a, hi, 50)], [(e - 12, 12 if 12 in vals else a, hi, 120)],
        ]
        for sh in shapes:
            for capv in (0, 1):
                tr = [sh] + [[] for _ in range(nt - 1)]
                if nt >= 2:
                    tr[1] = [(sh[0][0], a, sh[0][2], 10)] if capv else []
                if nt >= 3:
                    tr[2] = [(e - 12, a, hi, 90)]
                out.append((plan, tr, capv))
    return out


# (d) configuration histories: several tokenisers built and used one after the other in ONE process on the same pieces
CONFIG_HISTORIES = [
    [dict(vb=1), dict(vb=4), dict(vb=8), dict(vb=2)],
    [dict(vb=8), dict(vb=2), dict(vb=1)],
    [dict(vb=2, fl=FL[0]), dict(vb=2, fl=FL[15]), dict(vb=2, fl=FL[1]), dict(vb=2, fl=FL[0])],
    [dict(vb=4, nt=2), dict(vb=4, nt=3), dict(vb=2, nt=2)],
    [dict(vb=2, pr=(21, 108)), dict(vb=2, pr=(60, 61)), dict(vb=8, pr=(0, 127))],
    [dict(vb=3, nv=None), dict(vb=3, nv=[6, 12, 36]), dict(vb=3, nv=[12])],
]


def gen_cases(unit, ctx):
    kind = unit[0]
    allplans = list(plans(ctx["B"]))
    if kind == "long":
        # scale: 8-12 bars, dozens of notes per track, three tracks, onsets in the hundreds / thousands
        plan = [["44"] * 8, ["34", "44", "68", "38", "58", "22", "24", "44", "34", "34"], [None] + ["44"] * 11, ["38"] * 12][unit[1]]
        st, _ = grid(plan)
        end = st[-1]
        t0 = [(o, 12 if (o // 12) % 2 else 6, 21 + (o // 12) % 80, 1 + (o * 7) % 127) for o in range(0, end, 12)]
        t1 = [(o, 36 if (o // 24) % 3 == 0 else 24, 108 - (o // 24) % 50, 64) for o in range(0, end - 36, 24)]
        t2 = [(o, 6, 60, 100) for o in range(6, end, 96)]
        for cfg in (FL[0], FL[15], FL[5], FL[10]):
            for vb in (1, 8):
                yield piece(plan, [t0], 1, cfg, vb)
                yield piece(plan, [t0, t1], 0, cfg, vb)
                yield piece(plan, [t0, t1, t2], 1, cfg, vb)
        return
    if kind == "sigs":
        # signatures written in unusual ways (1/4, 1/1, 18/16, 32/16, 2/1 ...): alone, after 4/4, before 3/4
        s_ = unit[1]
        bl = blen(SIG[s_])
        for plan in ([s_], [s_, s_], ["44", s_, "34"], [s_, "68"]):
            st, _ = grid(plan)
            tr = [(st[b], 12, 60 + b, 64) for b in range(len(plan))] + [(st[b] + 12, 6, 70, 90) for b in range(len(plan)) if st[b + 1] - st[b] >= 24]
            for cfg in (FL[0], FL[15], FL[6]):
                yield piece(plan, [tr], 1, cfg, 2)
                yield piece(plan, [tr, [(st[-1] - 12, 12, 40, 64)]], 0, cfg, 1)
        return
    if kind == "onsets":
        # two notes at EVERY pair of onsets of a 4/4 bar whose three rests (before, between, after) the tokeniser's step
        # sizes can express (largest step first, e.g. 11 = 8 + 3, 19 = 16 + 3; 9 = 8 + 1 cannot)
        o1 = unit[1]
        for o2 in range(o1 + 1, 96):
            if all(greedy_ok(r) for r in (o1, o2 - o1, 96 - o2)):
                for cfg in (FL[0], FL[15]):
                    yield piece(["44"], [[(o1, 4, 60, 64), (o2, 4, 62, 80)]], 1, cfg, 1)
        return
    if kind == "barwise":
        # the piece handed over bar by bar with one state dictionary (as the repository's own round-trip tests do), with
        # and without one call that the tokeniser rejects (a pitch outside its range on the bar's last tick) and that the
        # caller repeats with the valid bar
        plan = [["44"] * 4, ["34", "44", "68", "38", "58", "22"], [None, "44", "34", "34"], ["38"] * 5][unit[1]]
        st, _ = grid(plan)
        end = st[-1]
        t0 = [(o, 12 if (o // 12) % 2 else 6, 60 + (o // 12) % 20, 1 + (o * 7) % 127) for o in range(0, end, 12)]
        t1 = [(st[b] + 6, 12, 50 - b % 10, 64) for b in range(len(plan))]      # no note crosses a bar line
        for cfg in (FL[0], FL[15], FL[5]):
            for rej in (None, 0, 1, len(plan) // 2, len(plan) - 1):
                for trs in ([t0], [t0, t1]):
                    c = piece(plan, trs, 1, cfg, 8, pr=(30, 100))
                    c["barwise"] = True
                    c["reject_at"] = rej
                    yield c
        return
    if kind == "pause":
        # scale in time: three bars of music, K completely silent bars (one rest of up to 28800 ticks), two more bars
        K = unit[1]
        for sg in ("44", "38"):
            plan = [sg] * (3 + K + 2)
            st, _ = grid(plan)
            t0 = [(st[0], 12, 60, 64), (st[1] + 6, 6, 62, 30), (st[2] + 6, 12, 60, 90), (st[3 + K] - 12, 12, 64, 64),
                  (st[3 + K] + 12, 6, 65, 64), (st[-2] + 6, 12, 67, 64)]
            t1 = [(6, 12, 40, 64), (st[3 + K] + 6, 6, 41, 64)]
            for cfg in (FL[0], FL[15]):
                yield piece(plan, [t0], 1, cfg, 1)
                yield piece(plan, [t0, t1], 0, cfg, 8)
        return
    if kind == "velsweep":
        # scale in the configuration: every velocity 1..127 once, for tokenisers with few, with many and with 128 bins
        vb = unit[1]
        plan = ["44"] * 8
        tr = [(6 * i, 6, 21 + i % 80, i + 1) for i in range(127)]
        for cfg in (FL[0], FL[15], FL[8]):
            yield piece(plan, [tr], 1, cfg, vb)
            yield piece(plan, [tr[::2], tr[1::2]], 1, cfg, vb)
        return
    if kind == "d":
        hist_ = CONFIG_HISTORIES[unit[1]]
        for plan in ([None], ["34", "44"]):
            st, _ = grid(plan)
            done = []
            for cfg in hist_:
                nt = cfg.get("nt", 1)
                pr = cfg.get("pr", (21, 108))
                nv = cfg.get("nv")
                d12 = 12
                tr = [[(0, d12, pr[0], 20), (12, d12, pr[1], 96), (st[1] - 12, d12, pr[0], 100), (24, d12, pr[1], 1)]]
                tr += [[(0, d12, pr[0], 127)] if k == 1 else [] for k in range(1, nt)]
                c = piece(plan, tr, 1, cfg.get("fl", FL[0]), cfg["vb"], pr, nv)
                c["before"] = [dict(x) for x in done]
                yield c
                c2 = dict(c)
                c2.pop("before")
                done.append(c2)
        return
    if kind in ("a1", "a2", "a3"):
        plan = allplans[unit[1]]
        al = alphabet(plan)
        if kind == "a1":
            for n in al:
                for capv in (0, 1, 2):
                    for cfg in FL:
                        yield piece(plan, [[n]], capv, cfg)
        elif kind == "a2":
            lo = [n for n in al if n[2] == 21]
            for i, n1 in enumerate(lo):
                if i % 6 != unit[2]:
                    continue
                for n2 in al:
                    if (n2[0], n2[1], n2[2]) <= (n1[0], n1[1], n1[2]) and n2[2] == 21:
                        continue
                    if wf([n1, n2]):
                        for capv in (0, 1):
                            for cfg in (FL[0], FL[15]) if ctx["tier"] == "quick" else (FL[0], FL[15], FL[5], FL[10]):
                                yield piece(plan, [[n1, n2]], capv, cfg)
        else:
            lo = [n for n in al if n[2] == 21 and n[1] in (6, 36)]
            for idx, c in enumerate(itertools.combinations(lo, 3)):
                if idx % 12 == unit[2] and wf(c):
                    for cfg in (FL[0], FL[15]):
                        yield piece(plan, [list(c)], 0, cfg)
    elif kind == "b":
        _, pi, nt, j = unit
        plan = [[None], ["34", "44"], ["68"]][pi]
        st, _ = grid(plan)
        al = [(o, d, 60, v) for o in (0, 6, st[1] - 6) for d in (6, 36) for v in (1, 64, 96, 97, 127)]
        trs = [[]] + [[a] for a in al]
        for ia, a in enumerate(trs):
            if ia % 4 != j:
                continue
            for b in trs:
                for c in ([[]] if nt == 2 else [[], [(12, 12, 60, 64)], [(st[-1] - 12, 12, 61, 5)]]):
                    tr = [a, b] + ([c] if nt == 3 else [])
                    if not any(tr):
                        continue
                    quick = ctx["tier"] == "quick"
                    if quick and nt == 3 and (ia + len(b)) % 2:
                        continue
                    for capv in (0, 1):
                        for cfg in (FL[::5] if quick else FL[::3]):
                            for vb in ((2, 8) if quick else (1, 2, 3, 8)):
                                yield piece(plan, tr, capv, cfg, vb)
    else:
        _, vb, nt, pri, nvi = unit
        for plan, tr, capv in pool(PRS[pri], NVS[nvi], nt):
            for cfg in FL:
                yield piece(plan, tr, capv, cfg, vb, PRS[pri], NVS[nvi])


_TOKS = {}


def get_tok(nt, vb, fl, pr, nv):
    k = (nt, vb, tuple(fl), tuple(pr), tuple(nv) if nv else None)
    if k not in _TOKS:
        if len(_TOKS) > 40:
            _TOKS.clear()
        _TOKS[k] = Tok(num_tracks=nt, velocity_bins=vb, pitch_range=tuple(pr), note_values=list(nv) if nv else None,
                       flag_running_values=fl[0], flag_fuse_track=fl[1], flag_fuse_value=fl[2], flag_fuse_velocity=fl[3])
    return _TOKS[k]


def check_case(case, ctx):
    R = core.Res()
    plan, tracks, capv, fl, vb = case["plan"], case["tracks"], case["cap"], case["fl"], case["vb"]
    st, sigs = grid(plan)
    nt = len(tracks)
    ends = [o + d for tr in tracks for o, d, p, v in tr]
    D = max(ends, default=0)
    if capv == 1:
        D = max(D, st[-1])
    elif capv == 2:
        D = max(D, st[-1] + blen(sigs[-1]))
    # signature events only on bars that exist
    events, prev = [], (4, 4) if plan[0] is None else None
    for b, s in enumerate(plan):
        if s is not None and SIG[s] != prev and (b == 0 or st[b] < D):
            events.append(("ts", st[b], SIG[s][0], SIG[s][1]))
        if s is not None:
            prev = SIG[s]
    seqs = []
    # every track is a single-channel sequence, but not necessarily on channel 0: the channel follows from the piece
    chan = [0, 5, 9, 3][(len(plan) + capv + sum(len(t) for t in tracks)) % 4]
    if chan:
        R.flags.append("track_channel_not_zero")
    for i, tr in enumerate(tracks):
        seqs.append(lib.seq_abs([(o, d, p, (chan + 2 * i) % 16, v) for o, d, p, v in tr], events if i == 0 else [],
                                D if (capv and i == 0) else None, ch_events=(chan + 2 * i) % 16))
    # expected bar lines: the piece's own grid, extended by its last signature, up to the bar containing D
    used = [s for b, s in enumerate(sigs) if b == 0 or st[b] < D]
    lines, cur = [], 0
    k = 0
    while cur < D or not lines:
        sg = used[k] if k < len(used) else used[-1]
        cur += blen(sg)
        lines.append(cur)
        k += 1
    onsets = [o for tr in tracks for o, d, p, v in tr]
    last_onset = max(onsets, default=0)
    tags = {}
    if not capv and last_onset in [0] + lines:
        tags["last_onset_on_bar_line_without_cap"] = True
        R.flags.append("last_onset_on_bar_line_without_cap")
    if not capv and any(o < ln < o + d for ln in lines for tr in tracks for o, d, p, v in tr if o + d == D):
        tags["note_overhangs_last_bar_line"] = True
        R.flags.append("note_overhangs_last_bar_line")
    if any(not any(ln_lo <= o < ln for tr in tracks for o, d, p, v in tr) for ln_lo, ln in zip([0] + lines, lines)):
        R.flags.append("rest_crosses_bar_line")
    if len(set(used[:len(lines)])) > 1:
        R.flags.append("signature_change")
    if nt > 1:
        R.flags.append("multi_track")
        if any(not tr for tr in tracks):
            R.flags.append("empty_track")
        if len({max([o + d for o, d, p, v in tr], default=0) for tr in tracks}) > 1:
            R.flags.append("unequal_track_lengths")
        if any((o, p) in {(o2, p2) for o2, d2, p2, v2 in tracks[1]} for o, d, p, v in tracks[0]):
            R.flags.append("same_pitch_same_tick_two_tracks")
    if capv == 2:
        R.flags.append("trailing_empty_bar")
    if vb > 1:
        R.flags.append("velocity_binned")
    if not any(fl[1:]):
        R.flags.append("unfused_all")
    if not fl[0]:
        R.flags.append("no_running_values")
    if case.get("nv"):
        R.flags.append("non_default_note_values")
    R.nontrivial = sum(len(t) for t in tracks) >= 2 or nt >= 2 or "rest_crosses_bar_line" in R.flags or "signature_change" in R.flags
    R.tags = dict(tags, velocity_bins=vb)
    for prev in case.get("before", []):
        # earlier tokenisers of the same process, used on the same kind of piece
        sub = check_case(prev, ctx)
        if sub.viols:
            R.outcome = "history_itself_violates"
            return R
    if case.get("before"):
        R.flags.append("configuration_history")
    try:
        t = get_tok(nt, vb, fl, case["pr"], case.get("nv"))
    except Exception as e:  # noqa: BLE001
        R.bad("tokeniser_construction_raises", f"{type(e).__name__}: {e}")
        return R
    try:
        if case.get("barwise"):
            from scoda.exceptions.tokenisation_exception import TokenisationException
            from scoda.sequences.sequence import Sequence
            bars = Sequence.sequences_split_bars(seqs, 0, False)
            sd, toks = {}, []
            R.flags.append("bar_by_bar_with_state_dictionary")
            for k in range(len(bars[0])):
                if case.get("reject_at") == k:
                    bad_ = [core.clone(tr[k].sequence) for tr in bars]
                    e_ = lib.view_abs(bad_[0])[1]
                    ch_ = (chan + 0) % 16
                    bad_[0].add_absolute_message(lib.on(e_ - 1, case["pr"][1] + 1, ch_, 64))
                    bad_[0].add_absolute_message(lib.off(e_, case["pr"][1] + 1, ch_))
                    try:
                        t.tokenise(bad_, state_dict=sd)
                        R.outcome = "poisoned_bar_not_rejected"
                        return R
                    except TokenisationException:
                        R.flags.append("rejected_call_then_repeated_with_the_valid_bar")
                toks += t.tokenise([tr[k].sequence for tr in bars], state_dict=sd)
        else:
            toks = t.tokenise(seqs)
    except Exception as e:  # noqa: BLE001
        R.bad("tokenise_fails_on_valid_piece", f"{type(e).__name__}: {e}")
        return R
    try:
        ids = t.encode(toks)
        dec = t.decode(ids)
    except Exception as e:  # noqa: BLE001
        R.bad("encode_or_decode_fails_on_tokenise_output", f"{type(e).__name__}: {e}; tokens {toks}")
        return R
    if dec != toks:
        R.bad("decode_encode_not_identity", f"{toks} -> {dec}")
    try:
        out = t.detokenise(dec)
    except Exception as e:  # noqa: BLE001
        R.bad("detokenise_fails_on_tokenise_output", f"{type(e).__name__}: {e}; tokens {toks}")
        return R
    if len(out) != nt:
        R.bad("wrong_track_count", f"{len(out)}")
        return R
    bins = list(t.velocity_bins)

    def binv(v):
        return next((b for b in bins if b >= v), None)
    for i, (tr, o) in enumerate(zip(tracks, out)):
        ob = lib.obs(o)
        for view in ("abs", "rel"):
            pn, orph, retr, uncl = lib.pair_notes(ob[view][0])
            got = sorted((n[2], n[3] - n[2], n[1], n[4]) for n in pn)
            exp = sorted((o_, d, p, binv(v)) for o_, d, p, v in tr)
            if got != exp or orph or retr or uncl:
                R.bad("notes_differ", f"track {i} {view}: got (onset,dur,pitch,vel) {got} expected {exp}; tokens {toks}")
                break
            if ob[view][1] != lines[-1]:
                R.bad("duration_not_rounded_up_to_last_bar", f"track {i} {view}: lasts {ob[view][1]}, bar lines {lines}; tokens {toks}")
                break
        if lib.internals(o) != lines:
            R.bad("bar_grid_differs", f"track {i}: bar lines {lib.internals(o)} expected {lines}; tokens {toks}")
    R.outcome = f"t{nt}b{len(lines)}"
    R.validated = nt
    return R


_m = sys.modules[__name__]
run_unit = core.std_run_unit(_m)
replay = core.std_replay(_m)
SAMPLE_AT = 11
