"""C14 - transposition shifts each pitch class by the interval, keeping pitches in range (E1)."""
import itertools
import sys

from mc import core, hist, lib
from scoda.elements.bar import Bar
from scoda.misc.music_theory import Key

ENGINE = "E1-sweep"
TICK_EVERY = 5      # every 5th case of every unit is repeated with numpy integer ticks (int64 / int32)
RULE = ("all sequences of <=3 notes over the pitch alphabet {21,22,32,33,60,96,97,107,108} x 2 onsets (wrapped notes can "
        "collide), sequences with a key signature in each of the 15 keys, and bars built from them (4 key settings) x EVERY "
        "interval in [-100,100]; non-trivial = interval != 0")
SCALE = ('16-120 notes x 11 intervals (long); ladder 129..1025 notes in three registers x 14 intervals up to +-127, built through either representation; every in-range octave of one pitch class held at once (7-8 notes) with one entering late x 39 intervals; EVERY ordered pair of the 15 keys as two key signatures of one sequence and as (bar key, key message inside the bar) x every interval -12..12; intervals as numpy integers; numpy integer ticks every 5th case')
ASSUMPTIONS = ["when octave wrapping happens only the image/in-range/return-value clauses apply (the library re-normalises "
               "and re-quantises lengths there)"]
REQUIRED_FLAGS = ["after_history", "aliased_messages_inside_sequence", "wrapped_up", "wrapped_down", "not_wrapped_exact", "interval_multiple_of_12", "interval_beyond_range",
                  "key_event_transposed", "bar_key_transposed", "collision_after_wrap", "roundtrip_checked",
                  "seven_or_more_notes_held_at_once", "scale_ladder", "interval_as_numpy_integer"]

PITCHES = [21, 22, 32, 33, 60, 96, 97, 107, 108]
TONIC = {"C": 0, "G": 7, "D": 2, "A": 9, "E": 4, "B": 11, "F#": 6, "C#": 1, "F": 5, "Bb": 10, "Eb": 3, "Ab": 8,
         "Db": 1, "Gb": 6, "Cb": 11}
KEYS = list(TONIC)


def context(tier, seed):
    return {"tier": tier, "ch": [0, 3, 9][seed % 3],
            "bounds": {"pitches": PITCHES, "onsets": [0, 12], "length": 12, "intervals": [-100, 100], "keys": 15,
                       "max_notes": 3 if tier == "quick" else 4}}


def units(ctx):
    lim = 100 if ctx["tier"] == "quick" else 127
    for fam in ("seq", "key", "bar"):
        for iv in range(-lim, lim + 1):
            yield (fam, iv)
    if ctx["tier"] != "quick":
        for iv in range(-100, 101):
            yield ("seq4", iv)
    yield from hist.hist_units()
    yield ("long", 0)
    for k in range(4):
        yield ("scale", k)
    for b in (21, 24, 30, 35):
        yield ("stack", b)
    for k1 in KEYS:
        yield ("twokeys", k1)


def _alpha(ctx):
    return [(o, 12, p, ctx["ch"], 64) for o in (0, 12) for p in PITCHES]


HIST_IVS = [1, -1, 2, 12, -13, 40, -40, 87]


def gen_cases(unit, ctx):
    if unit[0] == "long":
        for n in (16, 48, 120):
            for base in (23, 60, 102):
                ns = lib.long_desc(n, base, (ctx["ch"], ctx["ch"] + 1, 9), 12, lens=(12, 6, 24, 12))
                for iv in (0, 1, -1, 5, 12, -13, 40, -40, 87, 100, -100):
                    yield {"notes": [list(x) for x in ns], "key": "Eb", "bar": False, "iv": iv, "long": True}
        return
    if unit[0] == "scale":
        # scale ladder: 129 ... 1025 notes, low / middle / high register, built through either representation (only that
        # one is current when transpose is called), intervals up to the largest a pitch can move
        n = lib.LADDER[unit[1] + 2]
        for base in (23, 60, 102):
            ns = lib.long_desc(n, base, (ctx["ch"], ctx["ch"] + 1, 9), 12, lens=(12, 6, 24, 12))
            for iv in (1, -1, 7, 12, 19, 24, -24, 36, -36, 48, 87, -87, 127, -127):
                yield {"notes": [list(x) for x in ns], "key": "Eb", "bar": False, "iv": iv, "long": True,
                       "build": "rel" if (iv + n) % 2 else "abs"}
        return
    if unit[0] == "twokeys":
        # two key signatures in one sequence: EVERY ordered pair of the 15 keys x every interval -12..12 (a later key
        # may equal the earlier one shifted by the interval); the same inside a bar whose own key is the first one
        k1 = unit[1]
        for k2 in KEYS:
            for iv in range(-12, 13):
                yield {"notes": [[0, 12, 60, ctx["ch"], 64]], "key": k1, "key2": k2, "bar": False, "iv": iv}
                if iv % 3 == 0:
                    yield {"notes": [[0, 12, 60, ctx["ch"], 64]], "key": None, "key2": k2, "bar": True, "barkey": k1, "iv": iv}
        return
    if unit[0] == "stack":
        # many notes held at once: every octave of one pitch class inside the range sounds, one of them enters late
        b = unit[1]
        stack = list(range(b, 109, 12))
        for late in (0, len(stack) - 1, len(stack) // 2, None):
            ns = [[24 if i == late else 0, 12 if i == late else 48, p, ctx["ch"], 40 + i] for i, p in enumerate(stack)]
            for extra in ([], [[6, 6, b + 5, ctx["ch"] + 1, 9]]):
                for iv in list(range(-15, 16)) + [26, -26, 38, -38, 87, -87, 100, -100]:
                    yield {"notes": ns + extra, "key": None, "bar": False, "iv": iv, "long": True, "build": "abs" if iv % 2 else "rel"}
        return
    if unit[0] == "hist":
        for h in hist.hist_of_unit(unit):
            for iv in HIST_IVS:
                yield {"seed": unit[1], "build": unit[2], "hist": h, "iv": iv, "key": None, "bar": False}
        return
    fam, iv = unit
    al = _alpha(ctx)
    if fam == "seq":
        for k in (1, 2, 3):
            for ns in itertools.combinations(al, k):
                yield {"notes": [list(n) for n in ns], "key": None, "bar": False, "iv": iv}
    elif fam == "seq4":
        small = [n for n in al if n[2] in (21, 33, 97, 108)]
        for ns in itertools.combinations(small, 4):
            yield {"notes": [list(n) for n in ns], "key": None, "bar": False, "iv": iv}
    elif fam == "key":
        for key in KEYS:
            for ns in ([], [al[0]], [al[4], al[17]]):
                yield {"notes": [list(n) for n in ns], "key": key, "bar": False, "iv": iv}
                if ns and len(ns) == 1:
                    yield {"notes": [list(n) for n in ns], "key": key, "bar": False, "iv": iv, "ivtype": "int64" if iv % 2 else "int32"}
    else:
        for key in (None, "C", "F#", "Cb", "Eb"):
            for ns in ([], [al[0]], [al[4]], [al[8], al[9]], [al[1], al[16]]):     # incl. a bar of rests only
                for seqkey in (None, "G"):
                    yield {"notes": [list(n) for n in ns], "key": seqkey, "bar": True, "barkey": key, "iv": iv}
                    if len(ns) == 1 and key:
                        yield {"notes": [list(n) for n in ns], "key": seqkey, "bar": True, "barkey": key, "iv": iv, "ivtype": "int64"}


def check_case(case, ctx):
    R = core.Res()
    key, iv = case["key"], case["iv"]
    if "hist" in case:
        # live object reached through a history; expectation from the content read back just before transposing
        s = hist.build_seed(hist.seed_descs(60, ctx["ch"], ctx["ch"] + 1)[case["seed"]], case["build"])
        try:
            hist.apply(s, case["hist"], {"hp": 107}, R)      # the aliased / added motif sits at the range limit
        except Exception as e:  # noqa: BLE001
            R.outcome = "history_raises:" + type(e).__name__
            return R
        if R.viols:
            return R
        d = hist.observe_desc(s)
        if d is None:
            R.outcome = "history_leaves_unobservable_state"
            return R
        notes = [list(n) for n in d[0]]
        kk = [e for e in d[1] if e[0] == "ks"]
        key = kk[0][2] if len(kk) == 1 else None
        if len(kk) > 1:
            R.outcome = "two_keys"
            return R
        R.flags.append("after_history")
        if "concat_alias" in case["hist"]:
            R.flags.append("aliased_messages_inside_sequence")
    else:
        notes = case["notes"]
        events = ([("ks", 0, key)] if key else []) + ([("ks", 12, case["key2"])] if case.get("key2") else [])
        if case.get("build") == "rel":
            s = lib.seq_rel(notes, events, None)
        else:
            s = lib.seq_abs(notes, events, dur=24 if not case.get("long") else None)
        if len(notes) >= 7 and len({n[0] for n in notes}) <= 3:
            R.flags.append("seven_or_more_notes_held_at_once")
        if len(notes) >= 129:
            R.flags.append("scale_ladder")
    obj = s
    bar = None
    if case["bar"]:
        bar = Bar(s, 4, 4, Key(case["barkey"]) if case.get("barkey") else None)
        obj = bar
    before = lib.obs(s)
    in_notes = lib.desc_notes(notes)
    expect_shift = any(not (21 <= n[1] + iv <= 108) for n in in_notes)
    R.nontrivial = iv != 0
    if iv % 12 == 0:
        R.flags.append("interval_multiple_of_12")
    if abs(iv) > 87:
        R.flags.append("interval_beyond_range")
    iv_arg = iv
    if case.get("ivtype"):
        import numpy as np
        iv_arg = getattr(np, case["ivtype"])(iv)
        R.flags.append("interval_as_numpy_integer")
    try:
        ret = obj.transpose(iv_arg)
        after = lib.obs(s)
    except Exception as e:  # noqa: BLE001
        R.bad("transpose_raises", f"{type(e).__name__}: {e}")
        return R
    if ret is not expect_shift:
        R.bad("wrong_return_value", f"returned {ret!r}; some pitch + {iv} out of range: {expect_shift}; pitches {[n[1] for n in in_notes]}")
    if expect_shift:
        R.flags.append("wrapped_up" if any(n[1] + iv > 108 for n in in_notes) else "wrapped_down")
    for view in ("abs", "rel"):
        ev, d = after[view]
        pn, orph, retr, uncl = lib.pair_notes(ev)
        if orph or retr or uncl:
            R.bad("pairing_broken", f"{view}: {orph} {retr} {uncl}")
        for n in pn:
            if not 21 <= n[1] <= 108:
                R.bad("pitch_out_of_range", f"{view}: {n}")
            if not any(m[2] == n[2] and (n[1] - m[1] - iv) % 12 == 0 for m in in_notes):
                R.bad("note_is_not_image_of_an_original", f"{view}: {n} from {in_notes} by {iv}")
        if not expect_shift:
            want = sorted((c, p + iv, o, e, v) for c, p, o, e, v in in_notes)
            if pn != want:
                R.bad("exact_shift_wrong", f"{view}: got {pn} expected {want}")
        for e in ev:
            if e[1] == "key_signature":
                src = case["key2"] if case.get("key2") and e[0] == 12 else key       # the key this event carried before
                if e[7] is None or e[7] not in TONIC:
                    R.bad("key_event_undefined", f"{view}: {e} after transposing {src} by {iv}")
                elif src is not None and TONIC[e[7]] != (TONIC[src] + iv) % 12:
                    R.bad("key_event_wrong_tonic", f"{view}: {src} at tick {e[0]} by {iv} -> {e[7]}")
                else:
                    R.flags.append("key_event_transposed")
        if case.get("key2") and key and case["key2"] != key and sum(1 for e in ev if e[1] == "key_signature") != 2:
            R.bad("key_event_lost", f"{view}: two different key signatures went in, events now {[e for e in ev if e[1] == 'key_signature']}")
        if key and not any(e[1] == "key_signature" for e in ev):
            R.bad("key_event_lost", f"{view}: {ev}")
    if expect_shift:
        pn = lib.pair_notes(after["abs"][0])[0]
        if len(pn) < len(in_notes):
            R.flags.append("collision_after_wrap")
    if bar is not None and case.get("barkey"):
        k = bar.key_signature
        if not isinstance(k, Key):
            R.bad("bar_key_undefined", f"{case['barkey']} by {iv} -> {k!r}")
        elif TONIC[k.value] != (TONIC[case["barkey"]] + iv) % 12:
            R.bad("bar_key_wrong_tonic", f"{case['barkey']} by {iv} -> {k.value}")
        else:
            R.flags.append("bar_key_transposed")
    if not expect_shift and not R.viols:
        R.flags.append("not_wrapped_exact")
        try:
            ret2 = obj.transpose(-iv_arg)
            back = lib.obs(s)
            R.flags.append("roundtrip_checked")
            def strip(o):  # enharmonic spelling of keys may differ after a round trip: compare tonics
                return [[(e[:7] + (TONIC.get(e[7]),) + e[8:]) if e[1] == "key_signature" else e for e in o[v][0]] + [o[v][1]]
                        for v in ("abs", "rel")]
            if strip(back) != strip(before) or ret2:
                R.bad("transposing_back_does_not_restore", f"by {iv} then {-iv}: {back} vs {before}")
        except Exception as e:  # noqa: BLE001
            R.bad("transpose_back_raises", f"{type(e).__name__}: {e}")
    R.outcome = ("wrap" if expect_shift else "exact") + (":bar" if bar is not None else "") + (":key" if key else "")
    R.validated = 2
    R.tags = {"interval_mod_12": iv % 12, "wrapped": expect_shift}
    return R


_m = sys.modules[__name__]
run_unit = core.std_run_unit(_m)
replay = core.std_replay(_m)
SAMPLE_AT = 40
