"""C04 - absolute and relative views of a Sequence never diverge under any history (E2 + abstract fixed point)."""
from mc import core, lib
from mc.lib import on, off, ts, ks, cap, wait
from scoda.elements.message import Message
from scoda.enumerations.message_type import MessageType as MT
from scoda.misc.music_theory import Key
from scoda.sequences.relative_sequence import RelativeSequence
from scoda.sequences.sequence import Sequence

ENGINE = "E2-bfs"
RULE = ("breadth-first exploration of ALL histories over the public Sequence operation alphabet up to the depth bound, "
        "from 3 contents x 3 freshness states; states deduplicated on the complete raw representation of both stored "
        "views + freshness flags; after every transition: both views readable, agree on events and duration, round-trip "
        "conversions lossless, result identical when the same content is prepared in each of the three freshness states "
        "(differential), and equal to a list-model prediction for the simple operations; the projected freshness "
        "automaton is closed to a fixed point. non-trivial = a mutator executed while the view it writes was stale")
SCALE = ('two long contents (24 / 70 notes) explored to depth 2 with one absolute message inserted at EVERY slot (every stored tick and every tick between two of them) from all three freshness states, then 8 follow-up operations; one content with pauses of 1537, 4097 and 70001 ticks explored to depth 2 over the whole alphabet; a content with non-integral ticks; operations adding a restated key / time signature')
ASSUMPTIONS = ["freshness is read from the two private stale flags (harness-side read only)",
               "exceptions other than the 'references stale' SequenceException raised by an operation on ill-suited "
               "content (e.g. duration of an empty sequence) end that branch and are listed as outcome classes"]
REQUIRED_FLAGS = ["mutator_on_stale_view", "overwrite_abs_while_abs_stale", "overwrite_rel_while_rel_stale",
                  "iter_abandoned", "copy_taken", "wrap_transpose", "model_predicted", "differential_compared",
                  "insertion_at_every_slot_of_a_long_sequence", "pause_of_tens_of_thousands_of_ticks", "non_integral_tick_values"]

NOTE = ("note_on", "note_off")


# ---- seeds -------------------------------------------------------------------------------------

def _content(i, p):
    """raw timed event lists (tick, message) in a sane order + trailing duration"""
    if i == 0:
        return [], None
    if i == 1:
        return [(0, ts(None, 4, 4)), (0, on(None, p, 0, 64)), (5, on(None, p + 4, 1, 30)), (10, off(None, p, 0)),
                (25, off(None, p + 4, 1))], 40
    if i == 2:
        return [(0, on(None, p + 10, 0, 77)), (2, ks(None, "G")), (4, on(None, p + 12, 0, 50)), (8, off(None, p + 12, 0))], None
    if i == 3:
        return [(0, on(None, p + 1, 0, 64)), (3, on(None, p + 2, 1, 30)), (8, off(None, p + 2, 1)), (30, off(None, p + 1, 0))], 36
    if i in (4, 5):
        # scale: 24 / 70 notes (49 / 141 stored messages); a message is then inserted at EVERY slot (see enabled)
        evs = []
        for (o, l, pp, c, v) in lib.long_desc(24 if i == 4 else 70, p - 10, (0, 1), 8, lens=(3, 5, 7, 6)):
            evs += [(o, 2, on(None, pp, c, v)), (o + l, 0, off(None, pp, c))]
        evs.sort(key=lambda x: x[:2])
        return [(t, m) for t, _, m in evs], max(t for t, _, _ in evs) + 9
    # scale in time: pauses of 1537, 4097 and 70001 ticks, two events behind each of them
    return [(0, on(None, p, 0, 64)), (7, off(None, p, 0)), (1544, on(None, p + 1, 0, 50)), (1544, ks(None, "D")),
            (1550, off(None, p + 1, 0)), (5647, on(None, p + 2, 1, 51)), (5650, off(None, p + 2, 1)),
            (75651, on(None, p + 3, 0, 52)), (75651, on(None, p + 5, 1, 53)), (75660, off(None, p + 3, 0)),
            (75660, off(None, p + 5, 1))], 75700


def make_seed(i, p):
    content, fresh = divmod(i, 3)
    if content == 7:
        # non-integral tick values: the only public way to get them is halving odd tick distances without re-quantising
        s = lib.seq_abs([(1, 11, p, 0, 64), (13, 24, p + 4, 0, 50), (101, 21, p + 7, 1, 9)], [("ts", 0, 4, 4)], 193)
        s.scale(0.5, quantise_afterwards=False)
        if fresh != 1:
            s.refresh()
        if fresh == 0:
            s.invalidate_rel()
        return s
    evs, dur = _content(content, p)
    if fresh == 1:   # relative only
        msgs, t = [], 0
        for tick, m in evs:
            if tick > t:
                msgs.append(wait(tick - t))
                t = tick
            msgs.append(m)
        if dur is not None and dur > t:
            msgs.append(wait(dur - t))
        return Sequence(relative_sequence=RelativeSequence(msgs))
    s = Sequence()
    for tick, m in evs:
        m.time = tick
        s.add_absolute_message(m)
    if dur is not None:
        s.add_absolute_message(cap(dur))
    if fresh == 2:   # both
        s.rel  # noqa: B018
    return s


# ---- operations ----------------------------------------------------------------------------------

def other():
    return lib.seq_abs([(0, 6, 108, 0, 64)], dur=12)


def _iter_abs_edit(s):
    for m in s.messages_abs():
        if m.message_type is MT.NOTE_ON:
            m.velocity = 99


def _iter_rel_edit(s):
    for m in s.messages_rel():
        if m.message_type in (MT.NOTE_ON, MT.NOTE_OFF):
            m.note += 1


def _iter_abs_edit_first(s):
    for m in s.messages_abs():
        if m.message_type is MT.NOTE_ON:
            m.velocity = 98
            break


def _iter_rel_edit_first(s):
    for m in s.messages_rel():
        if m.message_type is MT.NOTE_ON:
            m.velocity = 97
            break


def _first_on(ev, vel):
    """model: the first note-on in stored order is the earliest; ties are avoided by the seeds' distinct onsets"""
    ons = [e for e in ev if e[1] == "note_on"]
    if not ons:
        return ev
    t0 = min(e[0] for e in ons)
    firsts = [e for e in ons if e[0] == t0]
    if len(firsts) != 1:
        return None
    return [e[:4] + (vel,) + e[5:] if e is firsts[0] else e for e in ev]


class MidIterationDivergence(Exception):
    pass


def _mid_check(s, what):
    """both views, read through the accessors between two steps of an iteration, must already agree"""
    a = lib.view_abs(Sequence(absolute_sequence=s.abs.copy()))[:2]
    r = lib.view_rel(Sequence(relative_sequence=s.rel.copy()))[:2]
    if a != r:
        raise MidIterationDivergence(f"{what}: abs {a} rel {r}")


def _iter_abs_edit_reading_rel(s):
    k = 0
    for m in s.messages_abs():
        if m.message_type is MT.NOTE_ON:
            m.velocity = 95
            k += 1
            _mid_check(s, f"after editing note-on #{k} while iterating the absolute view")


def _iter_rel_edit_reading_abs(s):
    k = 0
    for m in s.messages_rel():
        if m.message_type is MT.NOTE_ON:
            m.velocity = 94
            k += 1
            _mid_check(s, f"after editing note-on #{k} while iterating the relative view")


def _obtain_abs_then_transpose(s):
    it = s.messages_abs()          # the iterator is obtained but not advanced before another operation runs
    s.transpose(2)
    for _ in it:
        pass


def _obtain_rel_then_cutoff(s):
    it = s.messages_rel()
    s.cutoff(12, 6)
    for _ in it:
        pass


def _obtain_abs_transpose_read_edit(s):
    it = s.messages_abs()
    s.transpose(2)
    s.abs                          # noqa: B018  (a read between obtaining and consuming the iterator)
    for m in it:
        if m.message_type is MT.NOTE_ON:
            m.velocity = 93


def _split_edit_pieces(s):
    pieces = s.split([10])
    for k, pc in enumerate(pieces):
        pc.set_channel(7 + k)
        pc.transpose(2)
        pc.scale(2, quantise_afterwards=False)


def _add_abs_odd(s):
    s.add_absolute_message(on(3, 73, 0, 51))
    s.add_absolute_message(off(10, 73, 0))


def _add_abs_note(s):
    s.add_absolute_message(on(6, 72, 0, 50))
    s.add_absolute_message(off(18, 72, 0))


def _add_rel_note(s):
    s.add_relative_message(on(None, 75, 0, 41))
    s.add_relative_message(wait(3))
    s.add_relative_message(off(None, 75, 0))


def _noedit_abs(s):
    for _ in s.messages_abs():
        pass


def _noedit_rel(s):
    for _ in s.messages_rel():
        pass


# model helpers on canonical (events, duration); event = (tick, kind, ch, pitch, vel, num, den, key, program)
def _ident(ev, d):
    return ev, d


def _E(t, kind, ch=0, p=None, v=None, n=None, dd=None, k=None):
    return (t, kind, ch, p, v, n, dd, k, None)


OPS = {
    # name: (fn, model, writes)   writes in {"abs","rel",None}
    "read_abs": (lambda s: s.abs, _ident, None),
    "read_rel": (lambda s: s.rel, _ident, None),
    "refresh": (lambda s: s.refresh(), _ident, None),
    "copy": ("copy", _ident, None),
    "add_abs_note": (_add_abs_note, lambda ev, d: (ev + [_E(6, "note_on", 0, 72, 50), _E(18, "note_off", 0, 72)], max(d, 18)), "abs"),
    # a signature that restates the one in force (contents 1 and 2 hold 4/4 and G): normalising removes it again
    "add_abs_ks_again": (lambda s: s.add_absolute_message(ks(12, "G")),
                         lambda ev, d: (ev + [_E(12, "key_signature", 0, k="G")], max(d, 12)), "abs"),
    "add_abs_ts_again": (lambda s: s.add_absolute_message(ts(12, 4, 4)),
                         lambda ev, d: (ev + [_E(12, "time_signature", 0, n=4, dd=4)], max(d, 12)), "abs"),
    "add_rel_wait": (lambda s: s.add_relative_message(wait(6)), lambda ev, d: (ev, d + 6), "rel"),
    "add_rel_ts0": (lambda s: s.add_relative_message(ts(None, 3, 4), index=0), lambda ev, d: (ev + [_E(0, "time_signature", 0, n=3, dd=4)], d), "rel"),
    "add_rel_note": (_add_rel_note, lambda ev, d: (ev + [_E(d, "note_on", 0, 75, 41), _E(d + 3, "note_off", 0, 75)], d + 3), "rel"),
    "concat": (lambda s: s.concatenate([other()]), lambda ev, d: (ev + [_E(d, "note_on", 0, 108, 64), _E(d + 6, "note_off", 0, 108)], d + 12), "rel"),
    "merge": (lambda s: s.merge([other()]), None, "abs"),
    "cutoff": (lambda s: s.cutoff(12, 6), None, "abs"),
    "normalise": (lambda s: s.normalise(), None, "rel"),
    "ow_abs": (lambda s: s.overwrite_absolute_messages([on(0, 50, 0, 64), off(12, 50, 0), cap(24)]),
               lambda ev, d: ([_E(0, "note_on", 0, 50, 64), _E(12, "note_off", 0, 50)], 24), "abs"),
    "ow_abs_unsorted": (lambda s: s.overwrite_absolute_messages([on(0, 50, 0, 64), off(48, 50, 0), on(24, 52, 0, 60), off(72, 52, 0)]),
                        lambda ev, d: ([_E(0, "note_on", 0, 50, 64), _E(48, "note_off", 0, 50), _E(24, "note_on", 0, 52, 60),
                                        _E(72, "note_off", 0, 52)], 72), "abs"),
    "ow_rel": (lambda s: s.overwrite_relative_messages([on(None, 51, 0, 64), wait(12), off(None, 51, 0)]),
               lambda ev, d: ([_E(0, "note_on", 0, 51, 64), _E(12, "note_off", 0, 51)], 12), "rel"),
    "pad60": (lambda s: s.pad(60), lambda ev, d: (ev, max(d, 60)), "rel"),
    "set_channel3": (lambda s: s.set_channel(3), lambda ev, d: ([(e[0], e[1], 3) + e[3:] for e in ev], d), "rel"),
    "scale2": (lambda s: s.scale(2, quantise_afterwards=False), lambda ev, d: ([(e[0] * 2,) + e[1:] for e in ev], d * 2), "rel"),
    "transpose+1": (lambda s: s.transpose(1), "transpose", "rel"),
    "transpose-1": (lambda s: s.transpose(-1), "transpose", "rel"),
    "transpose+100": (lambda s: s.transpose(100), None, "rel"),
    "quantise8": (lambda s: s.quantise([8]), None, "abs"),
    "qnl": (lambda s: s.quantise_note_lengths([6, 12]), None, "abs"),
    "qan": (lambda s: s.quantise_and_normalise([6], [6, 12]), None, "abs"),
    "split_discard": (lambda s: s.split([10]), _ident, None),
    "iter_abs_edit": (_iter_abs_edit, lambda ev, d: ([e[:4] + (99,) + e[5:] if e[1] == "note_on" else e for e in ev], d), "abs"),
    "iter_rel_edit": (_iter_rel_edit, lambda ev, d: ([e[:3] + (e[3] + 1,) + e[4:] if e[1] in NOTE else e for e in ev], d), "rel"),
    "iter_abs_edit_first": (_iter_abs_edit_first, lambda ev, d: (_first_on(ev, 98), d), "abs"),
    "iter_rel_edit_first": (_iter_rel_edit_first, lambda ev, d: (_first_on(ev, 97), d), "rel"),
    "iter_abs_edit_reading_rel": (_iter_abs_edit_reading_rel, lambda ev, d: ([e[:4] + (95,) + e[5:] if e[1] == "note_on" else e for e in ev], d), "abs"),
    "iter_rel_edit_reading_abs": (_iter_rel_edit_reading_abs, lambda ev, d: ([e[:4] + (94,) + e[5:] if e[1] == "note_on" else e for e in ev], d), "rel"),
    "split_edit_pieces": (_split_edit_pieces, _ident, None),
    "add_abs_odd": (_add_abs_odd, lambda ev, d: (ev + [_E(3, "note_on", 0, 73, 51), _E(10, "note_off", 0, 73)], max(d, 10)), "abs"),
    "pad200": (lambda s: s.pad(200), lambda ev, d: (ev, max(d, 200)), "rel"),
    "dur_relation": (lambda s: s.get_sequence_duration_relation(), _ident, None),
    "iter_abs_first": (lambda s: next(s.messages_abs(), None), _ident, None),
    "iter_rel_first": (lambda s: next(s.messages_rel(), None), _ident, None),
    "iter_abs_noedit": (_noedit_abs, _ident, None),
    "iter_rel_noedit": (_noedit_rel, _ident, None),
    "eq_self": (lambda s: s.equals(s), _ident, None),
    "pairings": (lambda s: s.get_message_pairings(), _ident, None),
    "interleaved": (lambda s: s.get_interleaved_message_pairings(), _ident, None),
    "times_of_type": (lambda s: s.get_message_times_of_type([MT.TIME_SIGNATURE]), _ident, None),
    "dur": (lambda s: s.get_sequence_duration(), _ident, None),
    "dur_rel": (lambda s: s.get_sequence_duration_relation(), _ident, None),
    "is_empty": (lambda s: s.is_empty(), _ident, None),
    "channel_consistent": (lambda s: s.is_channel_consistent(), _ident, None),
    "to_midi_track": (lambda s: s.to_midi_track(), _ident, None),
    # round 7: an iterator obtained before and consumed after another operation; the receiver as its own meta sequence
    "obtain_abs_then_transpose": (_obtain_abs_then_transpose, None, "rel"),
    "obtain_rel_then_cutoff": (_obtain_rel_then_cutoff, None, "abs"),
    "obtain_abs_transpose_read_edit": (_obtain_abs_transpose_read_edit, None, "abs"),
    "scale_half_meta_self": (lambda s: s.scale(0.5, meta_sequence=s, quantise_afterwards=False), None, "rel"),
    "scale_half_meta_self_q": (lambda s: s.scale(0.5, meta_sequence=s), None, "rel"),
}
OPNAMES = list(OPS)


def _ins(tick):
    return (lambda s: s.add_absolute_message(lib.prog(tick, 5, 2)),
            lambda ev, d: (ev + [(tick, "program_change", 2, None, None, None, None, None, 5)], max(d, tick)), "abs")


def op_of(name):
    """(fn, model, writes); 'ins_abs:<tick>' = one absolute message inserted at that tick"""
    if name.startswith("ins_abs:"):
        return _ins(int(name.split(":")[1]))
    return OPS[name]


def slot_ticks(seed_i, p):
    """every tick at which some stored message of the long content sits, and every tick strictly between two of them"""
    evs, dur = _content(seed_i // 3, p)
    ts_ = sorted({t for t, _ in evs} | {dur})
    return sorted(set(ts_) | {a + 1 for a, b in zip(ts_, ts_[1:]) if b - a >= 2})


AFTER_INSERT = ["read_rel", "copy", "pad200", "normalise", "transpose+1", "add_abs_odd", "to_midi_track", "iter_rel_edit"]


def apply_op(s, name):
    fn = op_of(name)[0]
    if fn == "copy":
        return s.copy()
    fn(s)
    return s


def fresh_of(s):
    a, r = not s._abs_stale, not s._rel_stale
    return "AR" if a and r else "A" if a else "R" if r else "broken"


def both_views(s):
    ea, da, _ = lib.view_abs(s)
    er, dr, _ = lib.view_rel(s)
    return (ea, da), (er, dr)


# ---- engine interface ------------------------------------------------------------------------------

def context(tier, seed):
    p = [60, 40, 90][seed % 3]
    depth = 3 if tier == "quick" else 4
    return {"p": p, "depth": depth, "tier": tier,
            "bounds": {"depth": depth, "operations": OPNAMES, "seeds": "8 contents (4 small, 2 long with an insertion at every slot, 1 with pauses up to 70001 ticks, 1 with non-integral ticks from halving) x {abs-only, rel-only, both}",
                       "pitch_base": p}}


def seeds(ctx):
    return 24


def build(seed_i, hist, ctx):
    s = make_seed(seed_i, ctx["p"])
    for name in hist:
        s = apply_op(s, name)
    return s


def key_of(s, ctx):
    return hash(lib.raw_repr(s))


def enabled(state, seed_i, hist, ctx):
    content = seed_i // 3
    if content in (4, 5):
        # the long contents: depth 1 = the whole alphabet + an insertion at every slot; depth 2 = a few readers / mutators
        if not hist:
            return OPNAMES + [f"ins_abs:{t}" for t in slot_ticks(seed_i, ctx["p"])]
        return AFTER_INSERT if len(hist) == 1 and hist[0].startswith("ins_abs:") else []
    if content in (6, 7) and len(hist) >= 2:
        return []
    return OPNAMES


def _hidden_caps(s):
    """A fresh absolute view may hold INTERNAL cap messages that the relative view cannot express
    (a cap at or before the last event, or several caps).  Dropping the absolute view then really
    drops content, so the relative-only variant is not 'the same content' and is not compared."""
    if s._abs_stale:
        return False
    caps = [m.time for m in s._abs._messages if m.message_type is MT.INTERNAL]
    rest = [m.time for m in s._abs._messages if m.message_type is not MT.INTERNAL]
    return len(caps) > 1 or (bool(caps) and bool(rest) and min(caps) <= max(rest))


def _rebuilt(s):
    """a brand-new Sequence holding the same content (no history, no caches, no shared message objects)"""
    ev, d, _ = lib.view_abs(s)
    items = sorted(ev, key=lambda e: (e[0], {"note_off": 0, "note_on": 2}.get(e[1], 1)))
    n = Sequence()
    for e in items:
        n.add_absolute_message(Message(message_type=MT(e[1]), channel=e[2], time=e[0], note=e[3], velocity=e[4],
                                       numerator=e[5], denominator=e[6], key=Key(e[7]) if e[7] else None, program=e[8]))
    if not ev or d > max(e[0] for e in ev):
        if d > 0 or not ev:
            n.add_absolute_message(cap(d))
    return n


def _variants(s):
    """the same logical content prepared in the three freshness states (public API only)"""
    out = {}
    if not _hidden_caps(s):
        try:
            va = lib.view_abs(s)
            # with re-triggered (nested) notes the velocity a fused note keeps depends on the stored order of equal
            # events, which a rebuild cannot and need not reproduce (the statements do not demand it)
            # likewise, of two signatures of one kind on ONE tick (e.g. the same key on two channels) the stored order
            # decides which one a later normalise keeps; a rebuild does not reproduce that order
            sigs = [(e[0], e[1]) for e in va[0] if e[1] in ("time_signature", "key_signature")]
            if va[:2] == lib.view_rel(s)[:2] and not lib.pair_notes(va[0])[2] and len(set(sigs)) == len(sigs):
                out["rebuilt"] = _rebuilt(s)
        except Exception:  # noqa: BLE001
            pass
    for name in ("AR", "A") + (() if _hidden_caps(s) else ("R",)):
        c = core.clone(s)
        c.refresh()
        if name == "A":
            c.invalidate_rel()
        elif name == "R":
            c.invalidate_abs()
        out[name] = c
    return out


def check_step(s, op, ctx):
    """apply `op` to state `s` (mutated / replaced); returns (viols, new_state|None, info, facts)"""
    viols, facts = [], []
    f0 = fresh_of(s)
    try:
        pre_abs, pre_rel = both_views(s)
    except Exception as e:  # noqa: BLE001
        return [("state_unreadable_before_op", f"{type(e).__name__}: {e}")], None, [f0, op, "unreadable"], facts
    writes = op_of(op)[2]
    if op.startswith("ins_abs:"):
        facts.append("insertion_at_every_slot_of_a_long_sequence")
    if any(isinstance(e[0], float) and e[0] != int(e[0]) for e in pre_abs[0] + pre_rel[0]):
        facts.append("non_integral_tick_values")
    if any(e[0] > 70000 for e in pre_abs[0]):
        facts.append("pause_of_tens_of_thousands_of_ticks")
    if (writes == "abs" and f0 == "R") or (writes == "rel" and f0 == "A"):
        facts.append("mutator_on_stale_view")
        if op == "ow_abs":
            facts.append("overwrite_abs_while_abs_stale")
        if op == "ow_rel":
            facts.append("overwrite_rel_while_rel_stale")
    if op.startswith("iter_") and op.endswith("first"):
        facts.append("iter_abandoned")
    if op == "copy":
        facts.append("copy_taken")
    variants = _variants(s)
    try:
        s2 = apply_op(s, op)
    except MidIterationDivergence as e:
        return [("views_disagree_during_iteration", f"{op} from {f0}: {e}")], None, [f0, op.split(":")[0], "diverges"], facts
    except Exception as e:  # noqa: BLE001
        msg = f"{type(e).__name__}: {e}"
        if "stale" in str(e).lower():
            viols.append(("operation_finds_sequence_unreadable", f"{op} from {f0}: {msg}"))
        return viols, None, [f0, op.split(":")[0], "raises:" + type(e).__name__], facts + ["raises:" + op.split(":")[0] + ":" + type(e).__name__]
    f1 = fresh_of(s2)
    info = [f0, op.split(":")[0], f1]
    if f1 == "broken":
        viols.append(("both_views_stale_after_operation", f"{op} from {f0}"))
    # (1) readable
    try:
        post_abs, post_rel = both_views(s2)
    except Exception as e:  # noqa: BLE001
        viols.append(("sequence_unreadable_after_operation", f"{op} from {f0}: {type(e).__name__}: {e}"))
        return viols, None, info, facts
    # (2) agreement
    if post_abs != post_rel:
        viols.append(("views_disagree", f"after {op} from {f0}: abs {post_abs} rel {post_rel}"))
    # (3a) list model
    model = op_of(op)[1]
    if model is not None and pre_abs == pre_rel:
        facts.append("model_predicted")
        ev, d = pre_abs
        if model == "transpose" and not all(21 <= e[3] + (1 if op.endswith("+1") else -1) <= 108 for e in ev if e[1] in NOTE):
            pass    # octave wrapping: contract belongs to C14, only agreement/differential here
        elif model == "transpose":
            k = 1 if op.endswith("+1") else -1
            want = sorted([e[:3] + (e[3] + k,) + e[4:] if e[1] in NOTE else e for e in ev if e[1] != "key_signature"],
                          key=lambda e: tuple((x is None, x) for x in e))
            for nm, (gev, gd) in (("abs", post_abs), ("rel", post_rel)):
                got = [e for e in gev if e[1] != "key_signature"]
                gk = [e[0] for e in gev if e[1] == "key_signature"]
                if got != want or gd != d or gk != [e[0] for e in ev if e[1] == "key_signature"]:
                    viols.append(("effect_not_visible:" + nm, f"{op} from {f0}: got {gev},{gd} expected notes {want},{d}"))
        else:
            wev, wd = model(list(ev), d)
            if wev is not None:      # None: the model declines (e.g. two first note-ons on one tick)
                wev = sorted(wev, key=lambda e: tuple((x is None, x) for x in e))
                for nm, got in (("abs", post_abs), ("rel", post_rel)):
                    if got != (wev, wd):
                        viols.append(("effect_not_visible:" + nm, f"{op} from {f0}: got {got} expected {(wev, wd)}"))
    # (3b) differential over freshness states
    tie = op in ("iter_abs_edit_first", "iter_rel_edit_first") and _first_on(pre_abs[0], 0) is None
    if pre_abs == pre_rel and not tie:   # with two first note-ons on one tick "the first" depends on stored order
        facts.append("differential_compared")
        for vn, c in variants.items():
            try:
                c2 = apply_op(c, op)
                va, vr = both_views(c2)
            except MidIterationDivergence as e:
                viols.append(("views_disagree_during_iteration", f"{op} from {vn}: {e}"))
                continue
            except Exception as e:  # noqa: BLE001
                viols.append(("differential:raises_in_other_freshness_state",
                              f"{op}: fine from {f0}, but from {vn}: {type(e).__name__}: {e}"))
                continue
            if va != post_abs or vr != post_rel:
                viols.append(("differential:result_depends_on_freshness",
                              f"{op}: from {f0} -> {post_abs}/{post_rel}; from {vn} -> {va}/{vr}"))
    # (4) conversions lose nothing
    try:
        c = core.clone(s2)
        a = c.abs
        a2 = a.to_relative_sequence().to_absolute_sequence()
        if lib.view_abs(Sequence(absolute_sequence=a2))[:2] != post_abs:
            viols.append(("abs_rel_abs_roundtrip_lossy", f"after {op}: {lib.view_abs(Sequence(absolute_sequence=a2))[:2]} vs {post_abs}"))
        c = core.clone(s2)
        r = c.rel
        r2 = r.to_absolute_sequence().to_relative_sequence()
        if lib.view_rel(Sequence(relative_sequence=r2))[:2] != post_rel:
            viols.append(("rel_abs_rel_roundtrip_lossy", f"after {op}: {lib.view_rel(Sequence(relative_sequence=r2))[:2]} vs {post_rel}"))
    except Exception as e:  # noqa: BLE001
        viols.append(("conversion_raises", f"after {op}: {type(e).__name__}: {e}"))
    if op == "transpose+100" and any(e[1] == "note_on" for e in pre_abs[0]):
        facts.append("wrap_transpose")
    return viols, s2, info, facts


def step(state, op, seed_i, hist, acc, ctx):
    viols, s2, info, facts = check_step(state, op, ctx)
    acc.case(key=None, nontrivial="mutator_on_stale_view" in facts, transitions=1, validated=1 + 3 * ("differential_compared" in facts))
    for f in facts:
        if f.startswith("raises:"):
            acc.outcomes.add(f)
        else:
            acc.flags[f] += 1
    acc.outcomes.add("->".join(info[::2]))
    case = {"seed": seed_i, "hist": list(hist), "op": op}
    for sig, detail in viols:
        acc.violation(sig, case, detail, {"op": op, "fresh_before": info[0]})
    if len(hist) == 2 and op in ("ow_abs", "normalise", "iter_rel_edit") and len(acc.samples) < 2:
        acc.sample(case)
    if s2 is None or viols:      # do not expand below a violating or failed transition
        return None, info
    return key_of(s2, ctx), info


def replay(case, ctx):
    s = build(case["seed"], case["hist"], ctx)
    viols, _, _, _ = check_step(s, case["op"], ctx)
    return viols


def post(tot, ctx):
    """close the projected freshness automaton and bind every abstract edge to observed executions"""
    import json
    edges = {}
    for k, n in tot._edges.items():
        f0, op, f1 = json.loads(k)
        edges.setdefault((f0, op), {})[f1] = n
    nonfunc = {k: v for k, v in edges.items() if len([x for x in v if x in ("A", "R", "AR", "broken")]) > 1}
    reach, todo = set(), ["A", "R", "AR"]
    while todo:
        a = todo.pop()
        if a in reach:
            continue
        reach.add(a)
        for op in OPNAMES:
            for f1 in edges.get((a, op), {}):
                if f1 in ("A", "R", "AR", "broken") and f1 not in reach:
                    todo.append(f1)
    missing = [(a, op) for a in sorted(reach) for op in OPNAMES if (a, op) not in edges and a != "broken"]
    tot.extra["freshness_automaton"] = {"reachable_states": sorted(reach), "abstract_edges": len(edges),
                                        "non_functional_edges": {f"{k}": v for k, v in nonfunc.items()},
                                        "edges_never_executed": missing, "broken_reachable": "broken" in reach,
                                        "closure": "complete fixed point over the observed edge relation"}
    tot.extra.pop("abstract_edges", None)
    if missing:
        raise core.HarnessError(f"abstract edges without a concrete execution: {missing[:5]}")
