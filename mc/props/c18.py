"""C18 - pad, cut-off, integer scaling and channel assignment do exactly what they say (E1)."""
import itertools
import sys

from mc import core, hist, lib

ENGINE = "E1-sweep"
TICK_EVERY = 5      # every 5th case of every unit is repeated with numpy integer ticks (int64 / int32)
RULE = ("all well-formed sequences (<=2 notes over the full lattice, 3 (4 thorough) over a reduced one, with 0-2 signature "
        "events and trailing-rest variants, built through either representation) x every argument value: pad n in "
        "{0,d-1,d,d+1,2d}, cutoff all (m,r) with r<=m over {1,2,4,6}, scale k in 1..8, channel in {0,1,5,15}; "
        "predictions from a plain list model through BOTH views; plus the same operations on live objects reached through "
        "EVERY history of depth <= 2 over 25 legal history operations (queries, pads, scaling, edits through the generators, "
        "concatenation that aliases message objects) from 3 seeds x 2 builds, expectation computed from the content read "
        "back just before the operation; non-trivial = the operation changes something")
SCALE = ('16-120 notes (long); ladder 33..1025 notes x padding distances 769..70001, two long notes among many short ones; the end of one long note at EVERY tick of a 270-tick stretch of a 42-note piece (both channel orders); control and program changes; notes on one channel beside events on another, re-assigned to the notes own channel; rejected scale(1.5) inside histories; numpy integer ticks every 5th case')
ASSUMPTIONS = ["scale is exercised with quantise_afterwards=False (the pure operation)",
               "cut-off: the total duration is not part of the statement and is not compared"]
REQUIRED_FLAGS = ["after_history", "aliased_messages_inside_sequence", "pad_extends", "pad_noop_below", "cutoff_shortens", "cutoff_equal_length_kept", "scale_gt1",
                  "channel_changed", "signature_event_present", "trailing_rest"]

PITCH_VARIANTS = [60, 21, 107, 64]
CHAN_VARIANTS = [(0, 1), (2, 9), (0, 15)]
MR = [(m, r) for m in (1, 2, 4, 6) for r in (1, 2, 4, 6) if r <= m]


def context(tier, seed):
    p = PITCH_VARIANTS[seed % len(PITCH_VARIANTS)]
    ch = CHAN_VARIANTS[(seed // len(PITCH_VARIANTS)) % len(CHAN_VARIANTS)]
    return {"p": p, "ch": ch, "tier": tier, "L": 8,
            "bounds": {"lattice": [0, 8], "lengths": [1, 7], "pitches": [p, p + 1], "channels": list(ch),
                       "pad": "0,d-1,d,d+1,2d", "cutoff_pairs": MR, "scale": [1, 8], "set_channel": [0, 1, 5, 15],
                       "max_notes": 3 if tier == "quick" else 4}}


def _classes(ctx):
    p, (c0, c1) = ctx["p"], ctx["ch"]
    return [(p, c0), (p, c1), (p + 1, c0), (p + 1, c1)]


def _red(ctx):
    p, (c0, c1) = ctx["p"], ctx["ch"]
    return [(o, l, pp, cc) for o in (0, 1, 3, 4) for l in (1, 2, 3, 5, 7) for pp, cc in [(p, c0), (p, c1), (p + 1, c0)]]


def units(ctx):
    yield ("single",)
    for o1 in range(0, 8):
        for l1 in range(1, 8):
            yield ("pairs", o1, l1)
    for t1 in range(0, 9):
        yield ("events", t1)
    red = _red(ctx)
    for i in range(len(red)):
        yield ("triples", i)
    if ctx["tier"] != "quick":
        for i in range(len(red)):
            yield ("quads", i)
    yield from hist.hist_units()
    yield ("long",)
    for k in range(8):
        yield ("scale", k)


def _mk(notes):
    return [[n[0], n[1], n[2], n[3], 30 + 9 * i] for i, n in enumerate(notes)]


def _ops(d):
    ops = [["pad", n] for n in sorted({0, max(d - 1, 0), d, d + 1, 2 * d})]
    ops += [["cutoff", m, r] for m, r in MR]
    ops += [["scale", k] for k in range(1, 9)]
    ops += [["chan", c] for c in (0, 1, 5, 15)]
    return ops


def _emit(notes, events, build, trailing=(False, True), ops=None):
    end = max([n[0] + n[1] for n in notes] + [e[1] for e in events] + [0])
    for tr in trailing:
        dur = end + 3 if tr else None
        d = dur if dur is not None else end
        for op in (ops or _ops(d)):
            yield {"notes": notes, "events": events, "dur": dur, "build": build, "op": op}


HIST_ARGS = [["pad", "d+5"], ["pad", "2d"], ["cutoff", 4, 2], ["cutoff", 12, 6], ["cutoff", 48, 24], ["scale", 3], ["chan", 5]]


def gen_cases(unit, ctx):
    p, (c0, c1) = ctx["p"], ctx["ch"]
    kind = unit[0]
    if kind == "long":
        for n in (16, 48, 120):
            for step in (5, 7):
                ns = lib.long_desc(n, p - 2, (c0, c1, 9), step, lens=(3, 9, 5, 14))
                end = max(x[0] + x[1] for x in ns)
                for build in ("abs", "rel"):
                    for op in [["pad", end + 500], ["pad", 3], ["cutoff", 4, 2], ["cutoff", 12, 6], ["cutoff", 6, 6], ["scale", 2],
                               ["scale", 7], ["chan", 11]]:
                        yield {"notes": [list(x) for x in ns], "events": [["ts", 0, 3, 4], ["ks", step * n // 2, "G"]],
                               "dur": end + 10, "build": build, "op": op}
        return
    if kind == "scale":
        # scale ladder: 33 ... 1025 notes, tick distances in the thousands; few long notes among many short ones with the
        # end of one long note at EVERY tick of a stretch (cut-off); padding targets far beyond the content
        k = unit[1]
        if k < 6:
            n = lib.LADDER[k]
            ns = [list(x) for x in lib.long_desc(n, p - 2, (c0, c1, 9), 10, lens=(3, 4, 2, 4))]
            end = max(x[0] + x[1] for x in ns)
            for build in ("abs", "rel"):
                for op in [["pad", end + g] for g in lib.GAPS] + [["cutoff", 3, 2], ["scale", 3], ["chan", 11]]:
                    yield {"notes": ns, "events": [["ts", 0, 3, 4]], "dur": end + 1, "build": build, "op": op}
                for (s1, e1, s2, e2) in ((end // 4, end + 900, end // 8, end // 2), (end // 8, end // 2, end // 4, end + 900)):
                    two = [[s1, e1 - s1, p + 7, c0, 99], [s2, e2 - s2, p + 7, c1, 98]]
                    for op in (["cutoff", 12, 6], ["cutoff", 48, 24], ["scale", 2], ["pad", end + 2000]):
                        yield {"notes": ns + two, "events": [], "dur": None, "build": build, "op": op}
        else:
            ns = [list(x) for x in lib.long_desc(42, p - 2, (c0, c1), 10, lens=(3, 4, 2, 4))]
            first, second = (c0, c1) if k == 6 else (c1, c0)
            for e2 in range(150, 420):
                two = [[100, 900, p + 7, first, 99], [50, e2 - 50, p + 7, second, 98]]
                yield {"notes": ns + two, "events": [], "dur": None, "build": "abs" if e2 % 2 else "rel", "op": ["cutoff", 24, 24]}
        return
    if kind == "hist":
        for h in hist.hist_of_unit(unit):
            for op in HIST_ARGS:
                yield {"seed": unit[1], "build": unit[2], "hist": h, "op": op}
        return
    if kind == "single":
        yield from _emit([], [], "abs", (True,))
        for o in range(0, 8):
            for l in range(1, 8):
                for b in ("abs", "rel"):
                    yield from _emit(_mk([(o, l, p, c0)]), [], b)
    elif kind == "pairs":
        n1 = (unit[1], unit[2], p, c0)
        k = 0
        for o2 in range(0, 8):
            for l2 in range(1, 8):
                for cls in _classes(ctx):
                    if cls == (p, c0) and (o2, l2) <= n1[:2]:
                        continue
                    n2 = (o2, l2) + cls
                    if lib.well_formed([n1, n2]):
                        k += 1
                        yield from _emit(_mk([n1, n2]), [], "abs" if k % 2 else "rel", (False,))
    elif kind == "events":
        t1 = unit[1]
        # notes that all sit on the second channel beside signature / controller events on channel 0, re-assigned to the
        # channel the notes already have, to the events' channel and to a third one
        for e1 in (["ts", t1, 3, 4], ["ks", t1, "G"], ["cc", t1, 64, 100]):
            for build in ("abs", "rel"):
                yield from _emit(_mk([(1, 6, p, c1), (3, 2, p + 1, c1)]), [e1], build, (False,), [["chan", c1], ["chan", 0], ["chan", 7]])
        for ns in ([], [(1, 6, p, c0)], [(0, 3, p, c0), (2, 5, p, c1)]):
            for e1 in (["ts", t1, 3, 4], ["ks", t1, "G"], ["cc", t1, 64, 100], ["pc", t1, 5]):
                yield from _emit(_mk(ns), [e1], "rel")
                if e1[0] == "ts":
                    for t2 in range(0, 9):
                        yield from _emit(_mk(ns), [e1, ["ks", t2, "G"]], "abs", (False,))
    elif kind in ("triples", "quads"):
        red = _red(ctx)
        i = unit[1]
        r = 2 if kind == "triples" else 3
        few = [["pad", 3], ["pad", 40], ["cutoff", 2, 1], ["cutoff", 4, 4], ["cutoff", 6, 2], ["scale", 3], ["chan", 5]]
        for c in itertools.combinations(range(i + 1, len(red)), r):
            ns = [red[i]] + [red[x] for x in c]
            if lib.well_formed(ns):
                yield from _emit(_mk(ns), [], "rel", (False,), few)


def check_case(case, ctx):
    R = core.Res()
    op = list(case["op"])
    if "hist" in case:
        # a live object reached through a history of public operations; the expectation is computed from the
        # content read back through the public views just before the operation under test
        s = hist.build_seed(hist.seed_descs(ctx["p"], *ctx["ch"])[case["seed"]], case["build"])
        try:
            hist.apply(s, case["hist"], {"hp": ctx["p"] - 20}, R)
        except Exception as e:  # noqa: BLE001
            R.outcome = "history_raises:" + type(e).__name__
            return R
        if R.viols:
            return R
        d = hist.observe_desc(s)
        if d is None:
            R.outcome = "history_leaves_unobservable_state"
            return R
        notes, events, dur = [list(n) for n in d[0]], d[1], d[2]
        if op[0] == "pad":
            op[1] = dur + 5 if op[1] == "d+5" else 2 * dur
        R.flags.append("after_history")
        if "concat_alias" in case["hist"]:
            R.flags.append("aliased_messages_inside_sequence")
        build = case["build"]
    else:
        notes, events, dur, build = case["notes"], case["events"], case["dur"], case["build"]
        s = (lib.seq_abs if build == "abs" else lib.seq_rel)(notes, events, dur)
    before = lib.obs(s)
    if before["abs"] != before["rel"]:
        raise core.HarnessError(f"generated input views disagree: {case}")
    ev0, d0 = before["abs"]
    if events:
        R.flags.append("signature_event_present")
    if dur is not None and notes:
        R.flags.append("trailing_rest")
    try:
        if op[0] == "pad":
            s.pad(op[1])
        elif op[0] == "cutoff":
            s.cutoff(op[1], op[2])
        elif op[0] == "scale":
            s.scale(op[1], quantise_afterwards=False)
        else:
            s.set_channel(op[1])
        after = lib.obs(s)
    except Exception as e:  # noqa: BLE001
        R.bad(op[0] + "_raises", f"{type(e).__name__}: {e}")
        return R
    nn0 = lib.non_note(ev0)
    dn = lib.desc_notes(notes)
    for view in ("abs", "rel"):
        ev, d = after[view]
        pn, orph, retr, uncl = lib.pair_notes(ev)
        if (orph or retr or uncl) and op[0] != "chan":  # merging channels may legitimately overlap notes
            R.bad(op[0] + "_breaks_pairing", f"{view}: orphans {orph} retriggers {retr} unclosed {uncl}")
            continue
        if op[0] == "pad":
            if ev != ev0:
                R.bad("pad_touches_events", f"{view}: {ev} vs {ev0}")
            if d != max(d0, op[1]):
                R.bad("pad_wrong_duration", f"{view}: duration {d}, expected max({d0},{op[1]})")
        elif op[0] == "cutoff":
            m, r = op[1], op[2]
            want = sorted((c, p, o, (o + r) if e - o > m else e, v) for c, p, o, e, v in dn)
            if pn != want:
                R.bad("cutoff_wrong_notes", f"{view}: m={m} r={r}: got {pn} expected {want}")
            if lib.non_note(ev) != nn0:
                R.bad("cutoff_touches_events", f"{view}: {lib.non_note(ev)} vs {nn0}")
        elif op[0] == "scale":
            k = op[1]
            want = sorted((c, p, o * k, e * k, v) for c, p, o, e, v in dn)
            if pn != want:
                R.bad("scale_wrong_notes", f"{view}: k={k}: got {pn} expected {want}")
            if lib.non_note(ev) != [(e[0] * k,) + e[1:] for e in nn0]:
                R.bad("scale_wrong_events", f"{view}: {lib.non_note(ev)}")
            if d != d0 * k:
                R.bad("scale_wrong_duration", f"{view}: duration {d}, expected {d0}*{k}")
        else:
            c = op[1]
            want = sorted((e[0], e[1], c) + e[3:] for e in ev0)
            if sorted(ev) != want:
                R.bad("set_channel_wrong", f"{view}: got {ev} expected {want}")
            if d != d0:
                R.bad("set_channel_changes_duration", f"{view}: {d} vs {d0}")
    if op[0] == "pad":
        R.flags.append("pad_extends" if op[1] > d0 else "pad_noop_below")
        R.nontrivial = op[1] > d0
    elif op[0] == "cutoff":
        if any(e - o > op[1] for _, _, o, e, _ in dn):
            R.flags.append("cutoff_shortens")
            R.nontrivial = True
        if any(e - o == op[1] for _, _, o, e, _ in dn):
            R.flags.append("cutoff_equal_length_kept")
    elif op[0] == "scale":
        if op[1] > 1 and d0 > 0:
            R.flags.append("scale_gt1")
            R.nontrivial = True
    else:
        if any(e[2] != op[1] for e in ev0):
            R.flags.append("channel_changed")
            R.nontrivial = True
    R.outcome = op[0] + ("*" if R.nontrivial else "")
    R.validated = 2
    R.tags = {"op": op[0]}
    return R


_m = sys.modules[__name__]
run_unit = core.std_run_unit(_m)
replay = core.std_replay(_m)
