"""C03 - stateful bar-by-bar tokenisation is equivalent to tokenising the whole piece (E2 per piece)."""
import itertools
import sys

from mc import core, lib
from scoda.elements.bar import Bar
from scoda.exceptions.tokenisation_exception import TokenisationException
from scoda.sequences.sequence import Sequence
from scoda.tokenisation.notelike_tokenisation import MultiTrackLargeVocabularyNotelikeTokeniser as Tok

ENGINE = "E2-bfs-per-piece"
RULE = ("for every piece (bar plans with signature changes and empty bars x note sets incl. notes cut by bar lines x side "
        "tracks x both re-quantisation settings, turned into real bars by sequences_split_bars) the graph of carried "
        "states is explored completely: state = (bars consumed, state dictionary, meaning of the tokens so far), "
        "transition = one tokenise call on the next g bars for EVERY g, so all 2^(n-1) partitions are paths; every state "
        "is compared with the single-call tokenisation of the same prefix and terminal states with the bars themselves; "
        "non-trivial = a partition with >=2 calls where a later chunk contains a note")
SCALE = ('8-bar pieces with all 128 groupings; general pauses of 7/8/16/24 bars in 4/4, 3/8, 5/8, 7/8, 9/8, 6/8 that begin mid-bar and end with an upbeat / on a bar line / early in a bar, calls ending at 7 positions around the pause (all groupings of those); from every second state a rejected call that must leave the dictionary unchanged; nine-track pieces in which track numbers coincide with note values')
ASSUMPTIONS = ["token lists and state dictionaries of different partitions need not be equal, only their detokenised meaning",
               "the state dictionary is the only carrier of state between calls, so a call that the tokeniser rejects must leave "
               "the caller's dictionary as it found it (the caller repeats the call with repaired input)"]
REQUIRED_FLAGS = ["signature_change", "empty_bar", "note_cut_by_bar_line", "side_track_shorter", "later_chunk_has_note",
                  "all_partitions_explored", "two_track_piece_with_side_notes_explored", "running_values_off", "unfused_flags", "requantise_on", "requantise_off",
                  "general_pause_of_many_bars", "rejected_call_explored", "five_or_more_tracks"]

SIG = {"44": (4, 4), "34": (3, 4), "38": (3, 8), "68": (6, 8), "58": (5, 8),      # a 36-tick note fills a 3/8 bar exactly
       "78": (7, 8), "98": (9, 8)}
FL = list(itertools.product((True, False), repeat=4))


def blen(sig):
    return 96 * sig[0] // sig[1]


def plan_list(tier):
    out = []
    names = list(SIG)
    for k in (1, 2, 3):
        out.extend(list(p) for p in itertools.product(names[:3], repeat=k))
    out.extend([["44", "44", "44", "44"], ["34", "68", "44", "44"], ["58", "58", "34", "34"], ["44", "34", "34", "58"],
                ["38", "38", "38", "38"], ["68", "38", "68", "38"]])
    if tier != "quick":
        out.extend(list(p) for p in itertools.product(names[:3], repeat=4))
        out.extend([["44"] * 5, ["34", "34", "44", "44", "58"], ["44"] * 6, ["58", "34", "68", "44", "34", "58"]])
    return out


def context(tier, seed):
    return {"tier": tier, "p": [60, 40, 96][seed % 3],     # p-12 .. p+1 stays inside the default pitch range
            "flagsets": [FL[0], FL[15], FL[5], FL[2]] if tier == "quick" else FL[::2] + [FL[15]],
            "bounds": {"plans": len(plan_list(tier)), "max_bars": 4 if tier == "quick" else 6,
                       "flag_sets": 4 if tier == "quick" else 9, "partitions_per_piece": "all 2^(n-1)"}}


LONG_PLANS = [["44"] * 8, ["34", "34", "38", "38", "44", "58", "68", "34"]]


def units(ctx):
    return [(i, j) for i in range(len(plan_list(ctx["tier"]))) for j in range(4)] + [("long", k) for k in range(len(LONG_PLANS))] + \
           [("pause", m, K) for m in ("44", "38", "58", "78", "98", "68") for K in (7, 8, 16, 24)] + [("manytracks", 0)]


def gen_cases(unit, ctx):
    if unit[0] == "manytracks":
        # seven tracks: track numbers 4 and 6 are also note values, so that the last value of one call can equal the track
        # of the next call's first note (and the other way round) - every such pairing over three bars
        p = ctx["p"]
        plan = ["44", "44", "44"]
        for x in (4, 6, 8):
            for other in (0, 1, 5):
                def tracks_of(placed):
                    t = [[] for _ in range(9)]
                    for (trk, o, d) in placed:
                        t[trk].append([o, d, p + trk % 2, 0, 10 if trk % 2 else 30])
                    return t
                for placed in ([(other, 48, x), (x, 96, 12), (0, 192, 12)],       # value x, then a note on track x
                               [(x, 48, 12), (other, 96, x), (0, 192, 12)],       # track x, then a note of value x
                               [(x, 48, x), (other, 96, 12), (x, 192, x)]):
                    t = tracks_of(placed)
                    yield {"plan": plan, "notes": t[0], "side": t[1], "more": t[2:], "q": False}
        return
    if unit[0] == "pause":
        # scale in time: three bars of music, a general pause of K bars that begins in the middle of a bar and ends with
        # an upbeat (or on a bar line), two more bars; calls may end at 7 positions around the pause (all 128 groupings)
        _, m, K = unit
        bl, p = blen(SIG[m]), ctx["p"]
        nb = 3 + K + 2
        plan = [m] * nb
        st = [bl * i for i in range(nb + 1)]
        head = [[st[0], 12, p, 0, 10], [st[1] + 6, 6, p + 1, 0, 30], [st[2] + 6, 12, p, 0, 10]]
        for resume in (st[3 + K] - 12, st[3 + K], st[3 + K] - bl + 6):
            tail = [[resume, 12, p + 1, 0, 30], [st[3 + K] + 18, 6, p, 0, 10], [st[nb - 1] + 6, 12, p + 1, 0, 10]]
            for side in (None, [[6, 12, p - 12, 0, 33], [resume + 6, 6, p - 12, 0, 33]]):
                yield {"plan": plan, "notes": head + tail, "side": side, "q": bool(K % 2),
                       "cuts": sorted({1, 2, 3, 3 + K // 2, 3 + K - 1, 3 + K, nb - 1})}
        return
    if unit[0] == "long":
        # scale: eight bars, a note every 12 ticks, all 128 ways of grouping the bars into calls
        plan = LONG_PLANS[unit[1]]
        end = sum(blen(SIG[s]) for s in plan)
        p = ctx["p"]
        ns = [[o, 6 if (o // 12) % 2 else 12, p + (o // 12) % 2, 0, 10 if (o // 12) % 3 else 30] for o in range(0, end - 12, 12)]
        side = [[o, 12, p - 12, 0, 33] for o in range(6, end // 2, 48)]
        for q in (True, False):
            yield {"plan": plan, "notes": ns, "side": side, "q": q}
            yield {"plan": plan, "notes": ns[::3], "side": None, "q": q}
        return
    plan = plan_list(ctx["tier"])[unit[0]]
    p = ctx["p"]
    st = [0]
    for s in plan:
        st.append(st[-1] + blen(SIG[s]))
    al = []
    for b in range(len(plan)):
        for o in (st[b], st[b] + 6, st[b + 1] - 12, st[b + 1] - 6):
            for d in (6, 36):
                if o + d <= st[-1]:      # whole bars only: nothing overhangs the last planned bar
                    al.append((o, d, p + b % 2, 0, 10 if (o // 6) % 2 else 30))   # bins 12 and 36 = the two note values
    sets = [[]] + [[a] for a in al] + [list(c) for c in itertools.combinations(al[::2], 2) if lib.well_formed(c)]
    if len(plan) > 4 or (ctx["tier"] == "quick" and len(plan) >= 3):
        sets = sets[:1] + sets[1::3]
    elif len(plan) == 4:
        sets = sets[:1] + sets[1::2]
    sides = [None, [], [(6, 12, p - 12, 0, 5)], [(st[-1] - 12, 12, p - 12, 0, 33)]]
    for ns in sets[unit[1]::4]:
        for side in sides:
            if not ns and not side:
                continue
            for q in (True, False):
                yield {"plan": plan, "notes": [list(n) for n in ns], "side": None if side is None else [list(n) for n in side], "q": q}


_TOKS = {}


def tok(nt, fl):
    k = (nt, tuple(fl))
    if k not in _TOKS:
        _TOKS[k] = Tok(num_tracks=nt, velocity_bins=16, flag_running_values=fl[0], flag_fuse_track=fl[1],
                       flag_fuse_value=fl[2], flag_fuse_velocity=fl[3])
    return _TOKS[k]


def meaning(t, tokens):
    out = t.detokenise(t.decode(t.encode(list(tokens))))
    res = []
    for o in out:
        ev, d, _ = lib.view_abs(o)
        pn, orph, retr, uncl = lib.pair_notes(ev)
        res.append((tuple((n[1], n[2], n[3], n[4]) for n in pn), tuple(orph), tuple(uncl), tuple(lib.internals(o)), d))
    return tuple(res)


def check_case(case, ctx):
    R = core.Res()
    plan, notes, side, q = case["plan"], case["notes"], case["side"], case["q"]
    st, prev, events = [0], None, []
    for i, s in enumerate(plan):
        if SIG[s] != prev:
            events.append(("ts", st[i], SIG[s][0], SIG[s][1]))
            prev = SIG[s]
        st.append(st[-1] + blen(SIG[s]))
    seqs = [lib.seq_abs(notes, events, st[-1])]
    if side is not None:
        seqs.append(lib.seq_abs(side, [], None))
    for extra in case.get("more", []):
        seqs.append(lib.seq_abs(extra, [], None))
    if len(seqs) >= 5:
        R.flags.append("five_or_more_tracks")
    nt = len(seqs)
    bars = Sequence.sequences_split_bars(seqs, 0, q)
    n = len(bars[0])
    if len({len(b) for b in bars}) != 1 or n != len(plan):
        raise core.HarnessError(f"bar splitting gave {[len(b) for b in bars]} bars for plan {plan} (C09's domain)")
    if len({SIG[s] for s in plan}) > 1:
        R.flags.append("signature_change")
    if any(not any(st[b] <= nn[0] < st[b + 1] for nn in notes) for b in range(n)):
        R.flags.append("empty_bar")
    if any(any(nn[0] < x < nn[0] + nn[1] for x in st[1:-1]) for nn in notes):
        R.flags.append("note_cut_by_bar_line")
    if side is not None and (not side or side[0][0] + side[0][1] < st[-1] - 12):
        R.flags.append("side_track_shorter")
    R.flags.append("requantise_on" if q else "requantise_off")
    later_note = any(nn[0] >= st[1] for nn in notes) if n > 1 else False
    if later_note:
        R.flags.append("later_chunk_has_note")
    R.nontrivial = n >= 2 and later_note

    def chunk(a, b):
        return [Bar.to_sequence([core.clone(tr[i]) for i in range(a, b)]) for tr in bars]

    def poisoned(a, b):
        """the same chunk with one note the tokeniser must reject (pitch above its range) on the chunk's LAST tick, i.e.
        after every event of the chunk has been processed"""
        seqs_ = chunk(a, b)
        end_ = max(lib.view_abs(x)[1] for x in seqs_)
        if end_ < 2:
            return None
        seqs_[0].add_absolute_message(lib.on(end_ - 1, 120, 0, 64))
        seqs_[0].add_absolute_message(lib.off(end_, 120, 0))
        return seqs_
    # the bars themselves, laid end to end (independent pairing)
    truth = []
    for tr in bars:
        base, ns, lines = 0, [], []
        for bar in tr:
            ev, d, _ = lib.view_abs(bar.sequence)
            pn = lib.pair_notes(ev)[0]
            ns.extend((x[1], x[2] + base, x[3] + base) for x in pn)
            base += d
            lines.append(base)
        truth.append((tuple(sorted(ns)), tuple(lines), base))
    n_states = n_trans = 0
    allowed = (set(case["cuts"]) | {n}) if case.get("cuts") else set(range(1, n + 1))   # where a call may end
    if n >= 10:
        R.flags.append("general_pause_of_many_bars")
    for fl in ctx["flagsets"]:
        t = tok(nt, fl)
        if not fl[0]:
            R.flags.append("running_values_off")
        if not any(fl[1:]):
            R.flags.append("unfused_flags")
        try:
            ref = {k: meaning(t, t.tokenise(chunk(0, k))) for k in allowed}
        except TokenisationException:
            # a cut fragment whose length is no note value: the piece does not meet the tokeniser's input constraints
            R.flags.append("piece_outside_input_constraints")
            R.outcome = "rejected"
            return R
        except Exception as e:  # noqa: BLE001
            R.bad("single_call_tokenisation_fails", f"flags {fl}: {type(e).__name__}: {e}")
            continue
        for ti in range(nt):
            got = (tuple(sorted((x[0], x[1], x[2]) for x in ref[n][ti][0])), ref[n][ti][3], ref[n][ti][4])
            if got != truth[ti] or ref[n][ti][1] or ref[n][ti][2]:
                R.bad("single_call_differs_from_the_bars", f"flags {fl} track {ti}: detokenised {got} vs bars {truth[ti]}")
        # explicit-state search over (bars consumed, state dict, meaning so far)
        seen = {}
        frontier = [(0, {}, (), [])]
        paths_to_end = 0
        while frontier:
            nxt = []
            for k, sd, toks, path in frontier:
                for g in range(1, n - k + 1):
                    if k + g not in allowed:
                        continue
                    sd2 = dict(sd)
                    n_trans += 1
                    try:
                        new = t.tokenise(chunk(k, k + g), state_dict=sd2)
                        toks2 = toks + tuple(new)
                        m = meaning(t, toks2)
                    except Exception as e:  # noqa: BLE001
                        R.bad("stateful_call_fails", f"flags {fl} calls {path + [g]}: {type(e).__name__}: {e}")
                        continue
                    if m != ref[k + g]:
                        diff = next(i for i in range(nt) if m[i] != ref[k + g][i])
                        R.bad("partition_differs_from_single_call",
                              f"flags {fl}, bars per call {path + [g]}: track {diff}: chunked (notes,orphans,unclosed,barlines,duration) "
                              f"{m[diff]} vs single call {ref[k + g][diff]}; state {sd2}")
                        continue
                    if g == 1 and k % 2 == 0:
                        # failure path: a call the tokeniser rejects must leave the caller's dictionary as it found it
                        # (the dictionary is the only carrier of the clock; the caller repeats the call with repaired input)
                        bad_chunk = poisoned(k, k + g)
                        if bad_chunk is not None:
                            sd3 = dict(sd)
                            try:
                                t.tokenise(bad_chunk, state_dict=sd3)
                            except TokenisationException:
                                R.flags.append("rejected_call_explored")
                                if sd3 != sd:
                                    R.bad("rejected_call_changed_the_state_dictionary",
                                          f"flags {fl} calls {path} then a rejected call on bar {k}: dictionary {sd} became {sd3}")
                            except Exception as e:  # noqa: BLE001
                                R.bad("stateful_call_fails", f"flags {fl} rejected call: {type(e).__name__}: {e}")
                    if k + g == n:
                        paths_to_end += 1
                    key = (k + g, tuple(sorted(sd2.items())), m)
                    if key in seen:
                        continue
                    seen[key] = path + [g]
                    if k + g < n:
                        nxt.append((k + g, sd2, toks2, path + [g]))
            frontier = nxt
        n_states += len(seen)
        if not R.viols:
            R.flags.append("all_partitions_explored")
            if nt >= 2 and side:
                R.flags.append("two_track_piece_with_side_notes_explored")
    R.transitions = n_trans
    R.validated = n_trans
    R.flags.extend(["graph_state"] * n_states)
    R.outcome = f"n{n}t{nt}"
    R.tags = {"q": q, "bars": n}
    return R


_m = sys.modules[__name__]
run_unit = core.std_run_unit(_m)
replay = core.std_replay(_m)
SAMPLE_AT = 5


def post(tot, ctx):
    tot.extra["pieces"] = tot.n
    tot.states = tot.flags.pop("graph_state", 0) or tot.n
