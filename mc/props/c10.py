"""C10 - a Bar always lasts exactly its time signature, or its construction fails (E1)."""
import sys

from mc import core, hist, lib
from scoda.elements.bar import Bar
from scoda.exceptions.bar_exception import BarException
from scoda.misc.music_theory import Key

ENGINE = "E1-sweep"
TICK_EVERY = 5      # every 5th case of every unit is repeated with numpy integer ticks (int64 / int32)
RULE = ("all (numerator, denominator) in {1..7,12}x{2,4,8,16} x durations {0, cap-1, cap, cap+1, 2cap} (+ cap/2, 1) x "
        "note shapes x signature-event configurations (none / matching / conflicting / twice / mixed, at tick 0 or "
        "mid-bar) x key {None, C, F#} x construction route {absolute, relative}; non-trivial = padding, rejection or a "
        "signature event is involved")
SCALE = ('bars with 8/24 notes (long); dense bars (4/4, 3/4, 12/8, 3/2) of chords of 1..8 voices every second tick (up to ~800 stored messages), 0-2 ticks leading rest, durations cap, cap-1, cap-2, cap-5, conflicting / second signatures at a quarter, half, three quarters and the last tick of the bar; two different signatures on one tick in either order; x/32 and even x/64 bars; numpy integer ticks every 5th case')
ASSUMPTIONS = ["a redundant repeat of the matching signature may be accepted or rejected (statement is silent)"]
REQUIRED_FLAGS = ["hanging_note_ons", "after_history", "padded", "rejected_too_long", "rejected_conflicting_signature", "rejected_equal_length_signature", "accepted_exact", "signature_mid_bar",
                  "copy_compared", "dense_bar", "signature_deep_inside_a_dense_bar"]

SIGCFG = ["none", "m0", "m1", "c0", "c1", "m0m1", "m0c1", "c0m1", "d0", "e0", "e1", "m0e1",
          "c0m0", "m0c0", "c1m1", "e0m0",
          # "E": on the very last tick of the content (the closing bar line when the content fills the bar)
          "cE", "m0cE", "eE", "mE", "m0mE"]      # two different signatures on ONE tick, in either order


def context(tier, seed):
    return {"tier": tier, "p": [60, 21, 108, 64][seed % 4],
            "bounds": {"numerators": [1, 2, 3, 4, 5, 6, 7, 12], "denominators": [2, 4, 8, 16], "sig_configs": SIGCFG,
                       "keys": [None, "C", "F#"], "note_shapes": 6 if tier == "quick" else 9}}


def units(ctx):
    nums = (1, 2, 3, 4, 5, 6, 7, 12) if ctx["tier"] == "quick" else tuple(range(1, 17))
    dens = (2, 4, 8, 16) if ctx["tier"] == "quick" else (1, 2, 4, 8, 16, 32)
    for n in nums:
        for d in dens:
            yield (n, d)
    # fine denominators whose bar is still a whole number of ticks (x/32, even x/64)
    for n, d in ((1, 32), (3, 32), (5, 32), (2, 64), (4, 64), (6, 64), (10, 64), (14, 64)):
        if (n, d) not in [(a, b) for a in nums for b in dens]:
            yield (n, d)
    yield from hist.hist_units()
    yield ("long", 0)
    for n, d in ((4, 4), (3, 4), (12, 8), (3, 2)):
        for v in (1, 2, 3, 4, 6, 8):
            yield ("dense", n, d, v)


def gen_cases(unit, ctx):
    if unit[0] == "long":
        for n, d in ((4, 4), (12, 8), (7, 8), (3, 2), (9, 16)):
            cap = 96 * n // d
            for k in (8, 24):
                step = max(cap // k, 1)
                ns = [[step * i, max(step - 1, 1), ctx["p"] + i % 5, i % 3, 10 + i] for i in range(k) if step * i + max(step - 1, 1) <= cap]
                for dur in (cap - 1, cap, cap + 1):
                    for sc in ("none", "m0", "c1", "e0"):
                        for build in ("abs", "rel"):
                            yield {"n": n, "d": d, "dur": dur, "notes": [x for x in ns if x[0] + x[1] <= dur], "sig": sc, "key": "Eb", "build": build}
        return
    if unit[0] == "dense":
        # scale inside one bar: chords of v voices every second tick (up to ~800 stored messages), 0-2 ticks of leading
        # rest (shifts every message index), slightly short bars (padding), signatures deep inside the bar
        _, n, d, v = unit
        cap = 96 * n // d
        conflict = [n + 1, d]
        for lead in (0, 1, 2):
            for dur in (cap, cap - 1, cap - 2, cap - 5):
                ns = [[t, 2, ctx["p"] - 20 + j, j % 4, 10 + (t + j) % 100] for t in range(lead, dur - 1, 2) for j in range(v)]
                deep = [cap // 4, cap // 2, 3 * cap // 4, dur - 1]
                evs = [[]] + [[["ts", t, conflict[0], conflict[1]]] for t in deep] + \
                      [[["ts", 0, n, d], ["ts", t, conflict[0], conflict[1]]] for t in deep[1:3]] + \
                      [[["ts", 0, n, d], ["ts", deep[2], n, d]], [["ts", deep[1], n, d]]]
                for ev in evs:
                    yield {"n": n, "d": d, "dur": dur, "notes": ns, "sig": "explicit", "events": ev, "key": "Eb",
                           "build": "abs" if (lead + len(ev)) % 2 else "rel"}
        return
    if unit[0] == "hist":
        for h in hist.hist_of_unit(unit):
            for n, d in ((4, 4), (7, 8), (12, 8), (3, 2), (5, 16), (2, 4), (5, 8), (7, 16), (5, 4)):
                yield {"seed": unit[1], "build": unit[2], "hist": h, "n": n, "d": d, "sig": "none", "key": None}
        return
    n, d = unit
    p = ctx["p"]
    cap = 96 * n // d
    durs = sorted({0, 1, cap // 2, cap - 1, cap, cap + 1, 2 * cap})
    for dur in durs:
        shapes = [[]]
        if dur >= 1:
            shapes += [[[0, 1, p, 0, 64]], [[dur - 1, 1, p, 0, 64]], [[0, dur, p, 0, 64]]]
        if dur >= 3:
            shapes += [[[0, 1, p, 0, 64], [dur - 1, 1, p, 0, 50]], [[0, dur, p, 0, 64], [1, dur - 2, p + 1, 1, 50]]]
        if dur >= 2:      # one or two note-ons that are never closed (normalisation removes them; nothing else may go with them)
            shapes += [[["hang", p, 0]], [["hang", p, 0], ["hang", p + 4, 0]], [["hang", p, 0], ["hang", p, 1], [1, 1, p + 7, 0, 64]]]
        if ctx["tier"] != "quick" and dur >= 4:
            shapes += [[[0, 2, p, 0, 64], [2, 2, p, 0, 50]], [[1, 1, p, 0, 64], [1, 2, p, 1, 50]], [[dur - 2, 2, p, 3, 9]]]
        for notes in shapes:
            for sc in SIGCFG:
                if ("1" in sc or "E" in sc) and dur < 1:
                    continue
                for key in (None, "C", "F#"):
                    for build in ("abs", "rel"):
                        # the cap is only needed when no note reaches the end
                        yield {"n": n, "d": d, "dur": dur, "notes": notes, "sig": sc, "key": key, "build": build}


def sig_events(sc, n, d, dur=0):
    conflict = (n + 1, d) if n != 12 else (n - 1, d)
    other_den = (n, 2 if d != 2 else 4)
    ev = []
    for a, t in zip(sc[0::2], sc[1::2]):
        t = dur if t == "E" else t
        if a == "m":
            ev.append(["ts", int(t), n, d])
        elif a == "c":
            ev.append(["ts", int(t), conflict[0], conflict[1]])
        elif a == "d":
            ev.append(["ts", int(t), other_den[0], other_den[1]])
        elif a == "e":   # a different signature of the SAME bar length (6/8 in a 3/4 bar)
            eq = (2 * n, 2 * d) if d < 16 else (n // 2, d // 2) if n % 2 == 0 else (n + 1, d)
            ev.append(["ts", int(t), eq[0], eq[1]])
    return ev


def check_case(case, ctx):
    R = core.Res()
    n, d, sc, key, build = (case[k] for k in ("n", "d", "sig", "key", "build"))
    cap = 96 * n // d
    if "hist" in case:
        # a live sequence with a history (earlier duration queries, pads, aliased messages from concatenation, ...)
        live = hist.live_case(case, R, ctx["p"], 0, 1, hp=ctx["p"] - 20)
        if live is None:
            return R
        seq, notes, evd, dur = live
        events = [["ts", e[1], e[2], e[3]] for e in evd if e[0] == "ts"]
    else:
        dur, notes = case["dur"], case["notes"]
        hanging = [x for x in notes if x[0] == "hang"]
        notes = [x for x in notes if x[0] != "hang"]
        events = case["events"] if "events" in case else [] if sc == "none" else sig_events(sc, n, d, dur)
        if len(notes) >= 100:
            R.flags.append("dense_bar")
            if any(e[1] >= cap // 4 for e in events):
                R.flags.append("signature_deep_inside_a_dense_bar")
        seq = (lib.seq_abs if build == "abs" else lib.seq_rel)(notes, events, dur if dur > 0 else None)
        for _, hp_, hc_ in hanging:
            if build == "abs":
                seq.add_absolute_message(lib.on(0, hp_, hc_, 77))
            else:
                seq.add_relative_message(lib.on(None, hp_, hc_, 77), index=0)
        if hanging:
            R.flags.append("hanging_note_ons")
    conflicting = any((e[2], e[3]) != (n, d) for e in events)
    matching = sum(1 for e in events if (e[2], e[3]) == (n, d))
    must_reject = dur > cap or conflicting
    must_accept = dur <= cap and not conflicting and matching <= 1
    if any(e[1] > 0 for e in events):
        R.flags.append("signature_mid_bar")
    R.nontrivial = dur != cap or bool(events)
    k = Key(key) if key else None
    try:
        bar = Bar(seq, n, d, k)
    except BarException as e:
        R.outcome = "rejected"
        if must_accept:
            R.bad("valid_bar_rejected", f"BarException({e}) for duration {dur} <= capacity {cap}, signatures {events}")
        if dur > cap:
            R.flags.append("rejected_too_long")
        if conflicting:
            R.flags.append("rejected_conflicting_signature")
            if any(e[2] * d == n * e[3] and (e[2], e[3]) != (n, d) for e in events):
                R.flags.append("rejected_equal_length_signature")
        return R
    except Exception as e:  # noqa: BLE001
        R.bad("other_exception", f"{type(e).__name__}: {e}")
        return R
    R.outcome = "accepted"
    if must_reject:
        R.bad("over_long_bar_accepted" if dur > cap else "conflicting_signature_accepted",
              f"duration {dur}, capacity {cap}, signatures {events}: constructed without error")
    if dur < cap:
        R.flags.append("padded")
    if dur == cap:
        R.flags.append("accepted_exact")
    try:
        o = lib.obs(bar.sequence)
    except Exception as e:  # noqa: BLE001
        R.bad("bar_sequence_unreadable", f"{type(e).__name__}: {e}")
        return R
    for view in ("abs", "rel"):
        ev, du = o[view]
        if not must_reject and du != cap:
            R.bad("bar_duration_not_capacity", f"{view} view lasts {du}, capacity {cap} ({n}/{d})")
        tsx = [e for e in ev if e[1] == "time_signature"]
        if len(tsx) != 1 or tsx[0][0] != 0 or (tsx[0][5], tsx[0][6]) != (n, d):
            R.bad("bar_signature_events_wrong", f"{view} view: {tsx}, bar is {n}/{d}")
        pn, orph, retr, uncl = lib.pair_notes(ev)
        if pn != lib.desc_notes(notes) or orph or retr or uncl:
            R.bad("bar_notes_changed", f"{view} view: {pn} vs {lib.desc_notes(notes)}")
    if (bar.time_signature_numerator, bar.time_signature_denominator) != (n, d) or bar.key_signature != k:
        R.bad("bar_fields_wrong", f"{bar.time_signature_numerator}/{bar.time_signature_denominator} key {bar.key_signature}")
    if not R.viols:
        R.flags.append("copy_compared")
        try:
            c = bar.copy()
            oc = lib.obs(c.sequence)
            if (oc["abs"], oc["rel"]) != (o["abs"], o["rel"]):
                R.bad("copy_differs", f"bar {o} copy {oc}")
            if (c.time_signature_numerator, c.time_signature_denominator, c.key_signature) != (n, d, k):
                R.bad("copy_fields_differ", f"{c.time_signature_numerator}/{c.time_signature_denominator} {c.key_signature}")
            if c.sequence is bar.sequence:
                R.bad("copy_shares_sequence", "")
        except Exception as e:  # noqa: BLE001
            R.bad("copy_raises", f"{type(e).__name__}: {e}")
    R.tags = {"too_long": dur > cap, "padded": dur < cap}
    return R


_m = sys.modules[__name__]
run_unit = core.std_run_unit(_m)
replay = core.std_replay(_m)
