"""C19 - token annotations agree with the detokenised timeline (E2 on the clock automaton + E1)."""
import collections
import itertools
import math

from mc import core, lib
from scoda.tokenisation.notelike_tokenisation import MultiTrackLargeVocabularyNotelikeTokeniser as Tok

ENGINE = "E2-bfs-clock-automaton"
RULE = ("small-vocabulary configurations (2 pitches, values {12,24}, steps {12,24}, signatures 3/8 and 4/8, 2 tracks) in all "
        "16 flag sets x imputation on/off: (i) the complete TREE of all token streams up to the length bound, every node "
        "checked three ways (reference clock model vs get_info vs the note detokenise creates for the last token, found by "
        "multiset difference with the parent stream); (ii) the GRAPH of reference-clock states reachable within a 2-bar (quick) / 3-bar (thorough) "
        "horizon, one representative stream per state, every (state, token) edge replayed on the implementation; (iii) "
        "streams produced by tokenise from valid pieces: in-bar times against the piece's bar grid, monotone times. "
        "non-trivial = a note token after a rest, bar or signature token")
SCALE = ('streams of 300 / 120 tokens cycling through the vocabulary with a stride, every prefix checked; EVERY signature 2/8..16/8 at resolutions 9, 15, 21, 25, 24 in four stream shapes')
ASSUMPTIONS = ["values annotated on non-note tokens (NaN or imputed) are not demanded",
               "monotonicity is demanded only for streams produced by tokenise"]
REQUIRED_FLAGS = ["bar_in_partly_filled_bar", "signature_mid_bar_ignored", "signature_at_bar_start", "bare_running_value_token",
                  "rest_beyond_capacity", "note_after_rest", "imputation_on", "imputation_off", "graph_edge_replayed",
                  "tokenise_stream_checked", "pad_start_stop", "graph_probe", "odd_resolution", "long_stream", "every_signature_at_odd_resolution", "three_digit_step_sizes"] + ["pitch_class_%d" % i for i in range(12)]

FL = list(itertools.product((True, False), repeat=4))   # running, fuse_track, fuse_value, fuse_velocity
_TOKS = {}


def tok(fl, nt=2, small=True, ppqn=24, tsr=(3, 4)):
    k = (tuple(fl), nt, small, ppqn, tsr)
    if k not in _TOKS:
        kw = dict(pitch_range=(60, 61), note_values=[100, 480], step_sizes=[25, 100, 250, 480], time_signature_range=tsr) \
            if small == "big" else \
            dict(pitch_range=(60, 61), note_values=[12, 24], step_sizes=[12, 24], time_signature_range=tsr) if small else \
            dict(pitch_range=(0, 127))       # the full MIDI range, both limits included
        if ppqn != 24:
            kw["ppqn"] = ppqn
        _TOKS[k] = Tok(num_tracks=nt, velocity_bins=1, flag_running_values=fl[0], flag_fuse_track=fl[1],
                       flag_fuse_value=fl[2], flag_fuse_velocity=fl[3], **kw)
    return _TOKS[k]


def context(tier, seed):
    return {"tier": tier, "maxlen": 4 if tier == "quick" else 5, "horizon": (2 if tier == "quick" else 3) * 96,
            "bounds": {"max_stream_length": 4 if tier == "quick" else 5, "flag_sets": 16, "imputation": [False, True],
                       "graph_horizon_ticks": (2 if tier == "quick" else 3) * 96, "vocabulary": "12-16 tokens per configuration (tree: 1 track in quick, 2 tracks in thorough; graph: 2 tracks)"}}


def units(ctx):
    quick = ctx["tier"] == "quick"
    for fi in range(16):
        for imp in (False, True):
            if not (quick and imp and fi % 5):       # quick: imputation on for 4 of the 16 flag sets
                t = tok(FL[fi], nt=1 if quick else 2)
                for a in t.dictionary:
                    yield ("tree", fi, imp, a)
            yield ("graph", fi, imp)
    for fi in range(16):
        yield ("pieces", fi)
    for fi in (0, 15):
        yield ("pitches", fi)
    for fi in (0, 15, 5):
        yield ("longstream", fi)
    # every signature 2/8 ... 16/8 at odd and even resolutions (bar capacities that are not whole: 15 * 4 * 5 / 8 = 37.5)
    for ppqn in (15, 9, 21, 25, 24):
        for fi in (0, 15):
            yield ("allsigs", fi, ppqn)
    # step sizes and note values of three digits (resolutions 480 and 250): every ordered pair of rest tokens
    for ppqn in (480, 250):
        for fi in (0, 15):
            yield ("bigsteps", fi, ppqn)
    # an odd resolution (15 ticks per quarter): bar capacities that are not multiples of the signature numerator
    for fi in (0, 15):
        t = tok(FL[fi], nt=1, ppqn=15)
        for a in t.dictionary:
            yield ("tree15", fi, a)
        yield ("graph15", fi)
    if ctx["tier"] != "quick":
        for fi in (0, 15):
            t = tok(FL[fi], nt=1)
            for a in t.dictionary:
                for b in t.dictionary:
                    yield ("tree6", fi, a, b)


def fold(x):
    x %= 12
    return x - 12 if x > 6 else x


# ---- reference clock model -------------------------------------------------------------------------

class Clock:
    __slots__ = ("time", "bar", "total", "rem", "ppqn")

    def __init__(self, time=0, bar=0, total=None, rem=None, ppqn=24):
        self.ppqn = ppqn
        if total is None:
            total = rem = int(ppqn * 4 * 8 / 8)      # the default signature is 8/8
        self.time, self.bar, self.total, self.rem = time, bar, total, rem

    def key(self):
        return (self.time, self.bar, self.total, self.rem)

    def step(self, token):
        """returns (annotation_time, annotation_time_in_bar, pitch or None, facts) and advances"""
        c = Clock(*self.key(), ppqn=self.ppqn)
        facts = []
        at, ab = self.time, self.bar
        pitch = None
        parts = [p.split("_") for p in token.split("-")]
        kinds = [p[0] for p in parts]
        if "pit" in kinds:
            pitch = int(next(p for p in parts if p[0] == "pit")[1])
        elif kinds[0] == "rst":
            v = int(parts[0][1])
            c.time += v
            c.bar += v
            c.rem -= v
            if c.rem < 0:
                facts.append("rest_beyond_capacity")
        elif kinds[0] == "bar":
            if self.bar > 0:
                facts.append("bar_in_partly_filled_bar")
            c.time += self.rem
            c.bar = 0
            c.rem = self.total
        elif kinds[0] == "tsg":
            if self.bar > 0:
                facts.append("signature_mid_bar_ignored")
            else:
                facts.append("signature_at_bar_start")
                c.total = int(self.ppqn * 4 * int(parts[0][1]) / int(parts[0][2]))
                c.rem = c.total
        elif kinds[0] in ("trk", "val", "vel"):
            facts.append("bare_running_value_token")
        elif kinds[0] in ("pad", "sta", "sto"):
            facts.append("pad_start_stop")
        return c, at, ab, pitch, facts


def noteons(t, stream):
    out = collections.Counter()
    seqs = t.detokenise(list(stream))
    for ti, s in enumerate(seqs):
        for e in lib.view_abs(s)[0]:
            if e[1] == "note_on":
                out[(ti, e[0], e[3])] += 1
    return out


def same(a, b):
    return a == b or (isinstance(a, float) and isinstance(b, float) and math.isnan(a) and math.isnan(b))


KEYS = ("info_position", "info_time", "info_time_bar", "info_pitch", "info_circle_of_fifths")


def check_node(t, stream, imp, clock_before, parent_info, parent_notes):
    """oracle for the last token of `stream`; returns (viols, clock_after, info, notes, facts)"""
    viols = []
    token = stream[-1]
    clock_after, at, ab, pitch, facts = clock_before.step(token)
    try:
        info = t.get_info(list(stream), flag_impute_values=imp)
    except Exception as e:  # noqa: BLE001
        return [("get_info_raises", f"{type(e).__name__}: {e}")], clock_after, None, None, facts
    n = len(stream)
    for k in KEYS:
        if k not in info or len(info[k]) != n:
            viols.append(("annotation_list_length_wrong", f"{k}: {len(info.get(k, []))} entries for {n} tokens"))
    if viols:
        return viols, clock_after, info, None, facts
    if info["info_position"] != list(range(n)):
        viols.append(("positions_do_not_count_from_zero", f"{info['info_position']}"))
    if parent_info is not None:
        for k in KEYS:
            if not all(same(x, y) for x, y in zip(info[k][:-1], parent_info[k])):
                viols.append(("annotation_of_earlier_token_changes_with_later_tokens", f"{k}: {info[k][:-1]} vs {parent_info[k]}"))
    try:
        notes = noteons(t, stream)
    except Exception as e:  # noqa: BLE001
        return viols + [("detokenise_raises", f"{type(e).__name__}: {e}")], clock_after, info, None, facts
    new = notes - parent_notes
    if pitch is None:
        if sum(new.values()) != 0:
            viols.append(("non_note_token_creates_a_note", f"{token}: {dict(new)}"))
    else:
        if sum(new.values()) != 1:
            viols.append(("note_token_does_not_create_exactly_one_note", f"{token}: {dict(new)}"))
        else:
            (trk, onset, p), = new.keys()
            if info["info_time"][-1] != onset:
                viols.append(("annotated_time_differs_from_detokenised_onset",
                              f"token {n - 1} {token}: info_time {info['info_time'][-1]}, detokenise places the note at {onset}; stream {stream}"))
            if info["info_pitch"][-1] != p or p != pitch:
                viols.append(("annotated_pitch_wrong", f"{token}: info_pitch {info['info_pitch'][-1]}, note pitch {p}"))
            if info["info_circle_of_fifths"][-1] != fold(7 * p):
                viols.append(("annotated_circle_of_fifths_wrong", f"{token}: {info['info_circle_of_fifths'][-1]} for pitch {p}"))
            if onset != at:
                viols.append(("detokenise_onset_differs_from_reference_clock", f"{token}: onset {onset}, reference clock {at}; stream {stream}"))
    if info["info_time"][-1] != at:
        viols.append(("annotated_time_differs_from_reference_clock", f"token {n - 1} {token}: info_time {info['info_time'][-1]}, clock {at}; stream {stream}"))
    if info["info_time_bar"][-1] != ab:
        viols.append(("annotated_bar_time_differs_from_reference_clock", f"token {n - 1} {token}: info_time_bar {info['info_time_bar'][-1]}, clock {ab}; stream {stream}"))
    return viols, clock_after, info, notes, facts


def replay_stream(t, stream, imp):
    """oracle for the LAST token of a stream, everything recomputed from scratch (replay, graph edges, probes)"""
    clock = Clock(ppqn=t.ppqn)
    for tk in stream[:-1]:
        clock = clock.step(tk)[0]
    parent = list(stream[:-1])
    try:
        pinfo = t.get_info(parent, flag_impute_values=imp) if parent else None
        pnotes = noteons(t, parent) if parent else collections.Counter()
    except Exception as e:  # noqa: BLE001
        return [("parent_stream_rejected", f"{type(e).__name__}: {e}")], []
    v, _, _, _, facts = check_node(t, list(stream), imp, clock, pinfo, pnotes)
    return v, facts


def probes(t, clock):
    """streams appended after an edge to read the implementation's whole clock state (time, in-bar time, remaining
    and total capacity) through behaviour only; the reference clock predicts every answer"""
    note = next(k for k in t.dictionary if "pit" in k)
    return [[note], ["bar", note], ["bar", "bar", note], ["tsg_03_08", "bar", note]]


def run_tree(acc, t, cfgdesc, imp, prefix, maxlen):
    # DFS carrying the parent's clock / info / notes
    vocab = list(t.dictionary)
    clock, info, notes = Clock(ppqn=t.ppqn), None, collections.Counter()
    stack = []
    # establish the prefix
    for i in range(len(prefix)):
        v, clock, info, notes, facts = check_node(t, prefix[: i + 1], imp, clock, info if i else None, notes)
        if i == len(prefix) - 1:
            record(acc, cfgdesc, imp, prefix, v, facts)
        if info is None or notes is None:
            return
    stack.append((list(prefix), clock, info, notes))
    while stack:
        s, clock, info, notes = stack.pop()
        if len(s) >= maxlen:
            continue
        for tk in vocab:
            s2 = s + [tk]
            v, c2, i2, n2, facts = check_node(t, s2, imp, clock, info, notes)
            record(acc, cfgdesc, imp, s2, v, facts)
            if not v and i2 is not None and n2 is not None:
                stack.append((s2, c2, i2, n2))


def record(acc, cfgdesc, imp, stream, viols, facts):
    nontrivial = "pit" in stream[-1] and any(x[:3] in ("rst", "bar", "tsg") for x in stream[:-1])
    acc.case(key=None, nontrivial=nontrivial, transitions=1, validated=3)
    for f in facts:
        acc.flags[f] += 1
    if nontrivial and any(x[:3] == "rst" for x in stream[:-1]):
        acc.flags["note_after_rest"] += 1
    acc.flags["imputation_on" if imp else "imputation_off"] += 1
    acc.outcomes.add(stream[-1][:3] + (":viol" if viols else ":ok"))
    case = dict(cfgdesc, impute=imp, stream=list(stream))
    for sig, detail in viols:
        acc.violation(sig, case, detail, {"token_kind": stream[-1][:3]})
    if nontrivial and len(acc.samples) < 2 and len(stream) >= 3:
        acc.sample(case)


def run_graph(acc, t, cfgdesc, imp, horizon):
    """BFS over reference-clock states; one representative stream per state; every edge replayed on the implementation"""
    vocab = list(t.dictionary)
    seen = {Clock(ppqn=t.ppqn).key(): []}
    frontier = [[]]
    edges = 0
    while frontier:
        nxt = []
        for rep in frontier:
            clock = Clock(ppqn=t.ppqn)
            for tk in rep:
                clock = clock.step(tk)[0]
            for tk in vocab:
                c2 = clock.step(tk)[0]
                if c2.time > horizon or c2.time < 0 or len(rep) >= 14:
                    continue
                v, facts = replay_stream(t, rep + [tk], imp)
                edges += 1
                record(acc, cfgdesc, imp, rep + [tk], v, facts)
                acc.flags["graph_edge_replayed"] += 1
                # states are merged on the reference clock's state: justify every merge by reading the implementation's
                # clock state after this edge through the probe streams (all four after clock tokens, the note probe else)
                if not v:
                    ps = probes(t, c2)
                    for pr in (ps if tk[:3] in ("rst", "bar", "tsg") else ps[:1]):
                        pv, pf = replay_stream(t, rep + [tk] + pr, imp)
                        acc.flags["graph_probe"] += 1
                        if pv:
                            record(acc, cfgdesc, imp, rep + [tk] + pr, pv, pf)
                            v = pv
                            break
                if c2.key() not in seen and not v:
                    seen[c2.key()] = rep + [tk]
                    nxt.append(rep + [tk])
        frontier = nxt
    acc.flags["graph_state"] += len(seen)


def run_pieces(acc, fl, ctx):
    """streams produced by tokenise from valid pieces (default vocabulary)"""
    from mc.props import c01
    t = tok(fl, nt=1, small=False)
    cfgdesc = {"fl": list(fl), "nt": 1, "small": False}
    for plan in c01.plans(2):
        st, sigs = c01.grid(plan)
        al = c01.alphabet(plan, pitches=(60,))
        sets = [[n] for n in al] + [list(c) for c in itertools.combinations(al[::3], 2) if c01.wf(c)]
        for ns in sets:
            for capv in (0, 1):
                case = c01.piece(plan, [ns], capv, fl)
                D = max([o + d for o, d, p, v in ns] + ([st[-1]] if capv else [0]))
                events, prev = [], (4, 4) if plan[0] is None else None
                for b, s in enumerate(plan):
                    if s is not None and c01.SIG[s] != prev and (b == 0 or st[b] < D):
                        events.append(("ts", st[b], c01.SIG[s][0], c01.SIG[s][1]))
                    if s is not None:
                        prev = c01.SIG[s]
                seq = lib.seq_abs([(o, d, p, 0, v) for o, d, p, v in ns], events, D if capv else None)
                try:
                    toks = t.tokenise([seq])
                except Exception as e:  # noqa: BLE001
                    acc.case(nontrivial=True)
                    acc.violation("tokenise_fails_on_valid_piece", dict(cfgdesc, piece=case), f"{type(e).__name__}: {e}", {})
                    continue
                for imp in (False, True):
                    acc.case(key=None, nontrivial=len(ns) > 1 or any(x.startswith("rst") for x in toks), transitions=1, validated=2)
                    acc.flags["tokenise_stream_checked"] += 1
                    info = t.get_info(toks, flag_impute_values=imp)
                    viols = []
                    times = info["info_time"]
                    if any(b < a for a, b in zip(times, times[1:])):
                        viols.append(("annotated_times_decrease_on_tokenise_output", f"{times}"))
                    lines = [0]
                    used = [s for b, s in enumerate(sigs) if b == 0 or st[b] < D]
                    k = 0
                    while lines[-1] < D + 96 * 2:
                        lines.append(lines[-1] + c01.blen(used[k] if k < len(used) else used[-1]))
                        k += 1
                    got = sorted((times[i], info["info_pitch"][i]) for i, x in enumerate(toks) if "pit_" in x)
                    if got != sorted((o, p) for o, d, p, v in ns):
                        viols.append(("annotated_note_times_differ_from_piece", f"{got} vs {sorted((o, p) for o, d, p, v in ns)}; tokens {toks}"))
                    for i, x in enumerate(toks):
                        if "pit_" in x:
                            start = max(ln for ln in lines if ln <= times[i])
                            if info["info_time_bar"][i] != times[i] - start:
                                viols.append(("in_bar_time_differs_from_onset_minus_bar_start",
                                              f"token {i} {x}: info_time_bar {info['info_time_bar'][i]}, onset {times[i]}, bar starts {start}; tokens {toks}"))
                    for sig, detail in viols:
                        acc.violation(sig, dict(cfgdesc, piece=case, impute=imp), detail, {})


def run_unit(unit, acc, ctx):
    kind = unit[0]
    if kind == "tree":
        _, fi, imp, a = unit
        nt = 1 if ctx["tier"] == "quick" else 2
        run_tree(acc, tok(FL[fi], nt=nt), {"fl": list(FL[fi]), "nt": nt, "small": True}, imp, [a], ctx["maxlen"])
    elif kind == "tree6":
        _, fi, a, b = unit
        run_tree(acc, tok(FL[fi], nt=1), {"fl": list(FL[fi]), "nt": 1, "small": True}, False, [a, b], 6)
    elif kind == "tree15":
        _, fi, a = unit
        run_tree(acc, tok(FL[fi], nt=1, ppqn=15), {"fl": list(FL[fi]), "nt": 1, "small": True, "ppqn": 15}, False, [a], ctx["maxlen"])
        acc.flags["odd_resolution"] += 1
    elif kind == "graph15":
        run_graph(acc, tok(FL[unit[1]], nt=1, ppqn=15), {"fl": list(FL[unit[1]]), "nt": 1, "small": True, "ppqn": 15}, False,
                  (2 * 60) if ctx["tier"] == "quick" else 3 * 60)
    elif kind == "graph":
        _, fi, imp = unit
        run_graph(acc, tok(FL[fi]), {"fl": list(FL[fi]), "nt": 2, "small": True}, imp, ctx["horizon"])
    elif kind == "allsigs":
        _, fi, ppqn = unit
        t = tok(FL[fi], nt=1, ppqn=ppqn, tsr=(2, 16))
        desc = {"fl": list(FL[fi]), "nt": 1, "small": True, "ppqn": ppqn, "tsr": [2, 16]}
        sigs = [x for x in t.dictionary if x.startswith("tsg_")]
        note = next(x for x in t.dictionary if "pit_" in x)
        rest = next(x for x in t.dictionary if x.startswith("rst_"))
        for sg in sigs:
            for stream in ([sg, "bar", note], [sg, rest, "bar", "bar", note], [note, "bar", sg, "bar", note, rest, "bar", note],
                           [rest, sg, "bar", sg, "bar", note]):
                clock, info, notes = Clock(ppqn=t.ppqn), None, collections.Counter()
                for i in range(len(stream)):
                    v, clock, info, notes, facts = check_node(t, stream[: i + 1], False, clock, info if i else None, notes)
                    record(acc, desc, False, stream[: i + 1], v, facts)
                    if v or info is None or notes is None:
                        break
                acc.flags["every_signature_at_odd_resolution"] += 1
    elif kind == "bigsteps":
        _, fi, ppqn = unit
        t = tok(FL[fi], nt=1, small="big", ppqn=ppqn, tsr=(2, 16))
        desc = {"fl": list(FL[fi]), "nt": 1, "small": "big", "ppqn": ppqn, "tsr": [2, 16]}
        rests = [x for x in t.dictionary if x.startswith("rst_")]
        note = next(x for x in t.dictionary if "pit_" in x)
        for r1 in rests:
            for r2 in rests:
                for stream in ([r1, r2, note], [note, r1, "bar", r2, note, "bar", note], ["tsg_03_08", r1, note, r2, "bar", r1, note]):
                    clock, info, notes = Clock(ppqn=t.ppqn), None, collections.Counter()
                    for i in range(len(stream)):
                        v, clock, info, notes, facts = check_node(t, stream[: i + 1], False, clock, info if i else None, notes)
                        record(acc, desc, False, stream[: i + 1], v, facts)
                        if v or info is None or notes is None:
                            break
                    acc.flags["three_digit_step_sizes"] += 1
    elif kind == "longstream":
        # scale: a stream of several hundred tokens (cycling through the vocabulary with a stride), every token checked
        t = tok(FL[unit[1]])
        desc = {"fl": list(FL[unit[1]]), "nt": 2, "small": True}
        vocab = list(t.dictionary)
        for stride, n in ((5, 300), (7, 120)):
            stream = [vocab[(i * stride + i // len(vocab)) % len(vocab)] for i in range(n)]
            clock, info, notes = Clock(ppqn=t.ppqn), None, collections.Counter()
            for i in range(n):
                v, clock, info, notes, facts = check_node(t, stream[: i + 1], False, clock, info if i else None, notes)
                record(acc, desc, False, stream[: i + 1], v, facts)
                if v or info is None or notes is None:
                    break
            acc.flags["long_stream"] += 1
    elif kind == "pitches":
        # every pitch of the default vocabulary (all twelve pitch classes, both range limits)
        t = tok(FL[unit[1]], nt=1, small=False)
        desc = {"fl": list(FL[unit[1]]), "nt": 1, "small": False}
        for tk in t.dictionary:
            if "pit_" in tk and ("val_24" in tk or "val" not in tk):
                for imp in (False, True):
                    for pre in ([], ["rst_12"], ["bar", "rst_06"]):
                        v, facts = replay_stream(t, pre + [tk], imp)
                        record(acc, desc, imp, pre + [tk], v, facts)
                        acc.flags["pitch_class_%d" % (int(tk.split("pit_")[1][:3]) % 12)] += 1
    else:
        run_pieces(acc, FL[unit[1]], ctx)


def replay(case, ctx):
    t = tok(tuple(case["fl"]), case["nt"], case["small"], case.get("ppqn", 24), tuple(case.get("tsr", (3, 4))))
    if "stream" in case:
        return replay_stream(t, case["stream"], case["impute"])[0]
    acc = core.Acc()
    run_pieces(acc, tuple(case["fl"]), ctx)
    want = core.jkey(case["piece"])
    return [(v.sig, v.detail) for v in acc.viols if core.jkey(v.case.get("piece")) == want]


def post(tot, ctx):
    tot.extra["clock_graph_states"] = tot.flags.pop("graph_state", 0)
    tot.extra["clock_graph_probes"] = tot.flags.get("graph_probe", 0)
