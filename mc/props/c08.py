"""C08 - splitting a sequence conserves duration, sound and events with exact capacities (E1)."""
import itertools
import sys

from mc import core, hist, lib

ENGINE = "E1-sweep"
TICK_EVERY = 5      # every 5th case of every unit is repeated with numpy integer ticks (int64 / int32)
RULE = ("all well-formed sequences on the tick lattice (pairs over the full lattice, triples/quads over a reduced one, "
        "notes + 1-2 signature events on every tick incl. boundaries and the final tick, cap variants) x all capacity "
        "lists of length 1..3 over {2,3,5} + lists longer than the sequence; distinct = distinct (notes, events, dur, "
        "capacities, build); non-trivial = a note crosses a boundary or an event sits on one")
SCALE = ('16-120 notes under 8 capacity lists; four-channel chorales of 45/100/250 beats (eight note messages on every boundary tick) with 0..8 leading events shifting every message index, 5 capacity lists; one call returning 1320 pieces; controllers and program changes in the event family; two-channel cases repeated in the librarys canonical stored order; capacities handed over as tuple / generator / iterator / map / numpy array every 6th case; numpy integer ticks every 5th case')
ASSUMPTIONS = ["source sequences are well-formed with integer ticks (property precondition)"]
REQUIRED_FLAGS = ["capacities_not_a_list", "canonical_stored_order", "after_history", "note_crosses_two_boundaries", "event_on_boundary", "event_on_final_tick", "same_pitch_two_channels",
                  "remainder_piece", "capacities_longer_than_sequence", "trailing_rest", "leading_rest"]

PITCH_VARIANTS = [60, 21, 107, 64]
CHAN_VARIANTS = [(0, 1), (2, 9), (0, 15)]


def cap_lists():
    out = []
    for k in (1, 2, 3):
        out.extend(list(c) for c in itertools.product((2, 3, 5), repeat=k))
    out.extend([[5, 5, 5, 5], [13], [20], [1], [1, 1]])
    return out


CAPS = cap_lists()


def context(tier, seed):
    p = PITCH_VARIANTS[seed % len(PITCH_VARIANTS)]
    ch = CHAN_VARIANTS[(seed // len(PITCH_VARIANTS)) % len(CHAN_VARIANTS)]
    L = 9 if tier == "quick" else 12
    return {"p": p, "ch": ch, "tier": tier, "L": L,
            "bounds": {"lattice": [0, L], "pitches": [p, p + 1], "channels": list(ch), "capacity_lists": len(CAPS),
                       "max_notes": 3 if tier == "quick" else 4}}


def _classes(ctx):
    p, (c0, c1) = ctx["p"], ctx["ch"]
    return [(p, c0), (p, c1), (p + 1, c0), (p + 1, c1)]


def _red(ctx):
    p, (c0, c1) = ctx["p"], ctx["ch"]
    if ctx["tier"] == "quick":
        return [(o, l, pp, cc) for o in (0, 2, 3) for l in (1, 2, 5, 8) for pp, cc in [(p, c0), (p, c1), (p + 1, c0)]]
    return [(o, l, pp, cc) for o in (0, 1, 2, 3, 5) for l in (1, 2, 3, 5, 8) for pp, cc in [(p, c0), (p, c1), (p + 1, c0)]]


def _red4(ctx):
    p, (c0, c1) = ctx["p"], ctx["ch"]
    return [(o, l, pp, cc) for o in (0, 2, 3) for l in (1, 2, 5, 8) for pp, cc in [(p, c0), (p, c1)]]


def units(ctx):
    yield ("single",)
    for o1 in range(0, ctx["L"]):
        for l1 in range(1, ctx["L"] - o1 + 1):
            yield ("pairs", o1, l1)
    for nsi in range(3):
        for t1 in range(0, 9):
            yield ("events", nsi, t1)
    for i in range(len(_red(ctx))):
        yield ("triples", i)
    if ctx["tier"] != "quick":
        for i in range(len(_red4(ctx))):
            yield ("quads", i)
    yield from hist.hist_units()
    yield ("extremes",)
    yield ("long",)
    for beats in (45, 100, 250):
        for lead in range(9):
            yield ("chorale", beats, lead)
    yield ("slices",)


def _with_canonical(gen):
    """cases with notes on two channels built through the absolute representation are repeated with the messages stored
    in the library's canonical order (tick, channel, kind, pitch: at one tick a lower channel's note-on precedes a higher
    channel's note-off)"""
    for c in gen:
        yield c
        ns = c.get("notes", [])
        if c.get("build") == "abs" and len({n[3] for n in ns}) > 1 and (len(ns) <= 60 or len(c.get("events", [])) % 3 == 0):
            ticks = {}
            for n in ns:
                ticks.setdefault(n[0], set()).add(n[3])
                ticks.setdefault(n[0] + n[1], set()).add(n[3])
            if any(len(v) > 1 for v in ticks.values()):      # the order only matters where two channels meet on a tick
                yield dict(c, build="canon")


def gen_cases(unit, ctx):
    return lib.with_carriers(_with_canonical(_gen_cases(unit, ctx)), 6, "capcarrier")


def _mk(notes):
    return [[n[0], n[1], n[2], n[3], 30 + 9 * i] for i, n in enumerate(notes)]


def _emit(notes, events, build="abs"):
    end = max([n[0] + n[1] for n in notes] + [e[1] for e in events] + [0])
    for dur in (None, end + 2):
        for caps in CAPS:
            yield {"notes": notes, "events": events, "dur": dur, "caps": caps, "build": build}


def _gen_cases(unit, ctx):
    L = ctx["L"]
    p, (c0, c1) = ctx["p"], ctx["ch"]
    kind = unit[0]
    if kind == "long":
        for n in (16, 48, 120):
            for step in (5, 7):
                ns = lib.long_desc(n, p - 2, (c0, c1, 9), step, lens=(3, 9, 5, 14))
                end = max(x[0] + x[1] for x in ns)
                for caps in ([7], [50, 300], [96] * 8, [33] * 20, [end], [end - 1, 1], [1000], [5] * 40):
                    for build in ("abs", "rel"):
                        yield {"notes": [list(x) for x in ns], "events": [["ts", 0, 3, 4], ["ks", step * n // 2, "G"]],
                               "dur": end + 10, "caps": caps, "build": build}
        return
    if kind == "chorale":
        # scale: four channels changing notes on every beat (eight note messages on one tick at every boundary), one voice
        # holding every second note over the beat; 0-8 leading events shift every later message index by one
        _, beats, lead = unit
        ns = []
        for b in range(beats):
            for v, ch in enumerate((c0, c1, 9, 3)):
                if v == 3 and b % 2:
                    continue
                ns.append([24 * b, 48 if (v == 3) else 24, p - 3 + v * 2 + (b % 2), ch, 20 + (b * 4 + v) % 100])
        events = [["pc", 0, k] for k in range(lead)]
        end = 24 * beats + 24
        for caps in ([24] * (beats + 2), [96] * (beats // 4 + 1), [24, 48, 72] * (beats // 6 + 1), [end - 24], [960]):
            for build in ("abs", "rel"):
                yield {"notes": ns, "events": events, "dur": end, "caps": caps, "build": build}
        return
    if kind == "slices":
        # scale in the number of pieces: one call returning more than a thousand pieces
        ns = []
        for b in range(330):
            for v, ch in enumerate((c0, c1, 9)):
                ns.append([24 * b, 24 if v else 20, p - 3 + v * 2 + (b % 2), ch, 20 + (b * 4 + v) % 100])
        for caps in ([6] * 1320, [5, 7, 12] * 330, [24] * 330):
            yield {"notes": ns, "events": [["ts", 0, 3, 4]], "dur": 7920, "caps": caps, "build": "rel"}
        return
    if kind == "hist":
        for h in hist.hist_of_unit(unit):
            for caps in ([5], [30, 7], [84, 144], [3, 3, 3], [1000]):
                yield {"seed": unit[1], "build": unit[2], "hist": h, "caps": caps}
        return
    if kind == "extremes":
        # both limits of the pitch range on neighbouring channels, and channels 8..15 beside low ones, one tick apart
        for (pa, ca), (pb, cb) in (((108, 0), (21, 1)), ((21, 0), (108, 1)), ((108, 9), (21, 10)), ((127, 12), (0, 2)),
                                   ((108, 15), (21, 0)), ((60, 9), (60, 0))):
            for oa, la in ((0, 8), (1, 6), (2, 3)):
                for ob, lb in ((0, 8), (2, 6), (3, 1), (1, 1)):
                    for c in _emit(_mk([(oa, la, pa, ca), (ob, lb, pb, cb)]), []):
                        yield c
        return
    if kind == "single":
        for caps in CAPS:
            yield {"notes": [], "events": [], "dur": None, "caps": caps, "build": "abs"}
            yield {"notes": [], "events": [], "dur": 7, "caps": caps, "build": "abs"}
        for o in range(0, L):
            for l in range(1, L - o + 1):
                for b in ("abs", "rel"):
                    yield from _emit(_mk([(o, l, p, c0)]), [], b)
    elif kind == "pairs":
        o1 = unit[1]
        for l1 in (unit[2],):
            n1 = (o1, l1, p, c0)
            for o2 in range(0, L):
                for l2 in range(1, L - o2 + 1):
                    for cls in _classes(ctx):
                        if cls == (p, c0) and (o2, l2) <= (o1, l1):
                            continue
                        n2 = (o2, l2) + cls
                        if lib.well_formed([n1, n2]):
                            for c in _emit(_mk([n1, n2]), []):
                                if c["dur"] is None:   # pairs: no-cap variant only (caps are covered elsewhere)
                                    yield c
    elif kind == "events":
        ns = [[], [(1, 6, p, c0)], [(0, 3, p, c0), (2, 5, p, c1)]][unit[1]]
        end = max([n[0] + n[1] for n in ns] + [0])
        for t1 in (unit[2],):
            for e1 in (["ts", t1, 3, 4], ["ks", t1, "G"], ["cc", t1, 123, 0], ["cc", t1, 120, 0], ["cc", t1, 64, 127], ["pc", t1, 5]):
                yield from _emit(_mk(ns), [e1], "rel")
                if e1[0] == "ts":
                    for t2 in range(0, 9):
                        yield from _emit(_mk(ns), [e1, ["ks", t2, "G"]], "abs")
    elif kind == "triples":
        red = _red(ctx)
        i = unit[1]
        for j in range(i + 1, len(red)):
            if not lib.well_formed([red[i], red[j]]):
                continue
            for k in range(j + 1, len(red)):
                ns = [red[i], red[j], red[k]]
                if lib.well_formed(ns):
                    for c in _emit(_mk(ns), [], "rel"):
                        if c["dur"] is None:
                            yield c
    elif kind == "quads":
        red = _red4(ctx)
        i = unit[1]
        for c3 in itertools.combinations(range(i + 1, len(red)), 3):
            ns = [red[i]] + [red[x] for x in c3]
            if lib.well_formed(ns):
                for c in _emit(_mk(ns), [], "rel"):
                    if c["dur"] is None:
                        yield c


def vel_roll(notes):
    out = {}
    for n in notes:  # (ch, p, on, end, vel)
        for t in range(n[2], n[3]):
            out[(n[0], n[1], t)] = n[4]
    return out


def check_case(case, ctx):
    R = core.Res()
    caps = case["caps"]
    if "hist" in case:
        live = hist.live_case(case, R, ctx["p"], *ctx["ch"], hp=ctx["p"] - 20)
        if live is None:
            return R
        src, notes, events, dur = live
    else:
        notes, events, dur, build = case["notes"], case["events"], case["dur"], case["build"]
        if build == "canon":
            src = lib.seq_abs(notes, events, dur, order="canonical")
            R.flags.append("canonical_stored_order")
        else:
            src = (lib.seq_abs if build == "abs" else lib.seq_rel)(notes, events, dur)
    D = max([n[0] + n[1] for n in notes] + [e[1] for e in events] + [dur or 0])
    before = lib.obs(src)
    try:
        caps_arg = list(caps)
        if case.get("capcarrier"):
            # the same capacities handed over as a tuple / generator / iterator / map object / numpy array
            caps_arg = lib.carriers(caps)[case["capcarrier"]]()
            R.flags.append("capacities_not_a_list")
        pieces = src.split(caps_arg)
    except Exception as e:  # noqa: BLE001
        R.bad("split_raises", f"{type(e).__name__}: {e}")
        R.nontrivial = True
        return R
    # facts
    bounds, acc_ = [], 0
    for c in caps:
        acc_ += c
        if acc_ <= D:
            bounds.append(acc_)
    crossing = [n for n in notes if any(n[0] < b < n[0] + n[1] for b in bounds)]
    if any(sum(1 for b in bounds if n[0] < b < n[0] + n[1]) >= 2 for n in notes):
        R.flags.append("note_crosses_two_boundaries")
    if any(e[1] in bounds for e in events):
        R.flags.append("event_on_boundary")
    if any(e[1] == D for e in events) and D > 0:
        R.flags.append("event_on_final_tick")
    if len({n[2] for n in notes}) < len({(n[2], n[3]) for n in notes}):
        R.flags.append("same_pitch_two_channels")
    if sum(caps) > D:
        R.flags.append("capacities_longer_than_sequence")
    if sum(caps) < D:
        R.flags.append("remainder_piece")
    if dur is not None and notes:
        R.flags.append("trailing_rest")
    if notes and min(n[0] for n in notes) > 0:
        R.flags.append("leading_rest")
    R.nontrivial = bool(crossing) or any(e[1] in bounds for e in events)
    # contract
    if len(pieces) > len(caps) + 1:
        R.bad("too_many_pieces", f"{len(pieces)} pieces for {len(caps)} capacities")
    start, got_notes, got_events, durs = 0, [], [], []
    for i, pc in enumerate(pieces):
        try:
            stream, d = lib.rel_stream(pc)
            ea, da, _ = lib.view_abs(pc)
        except Exception as e:  # noqa: BLE001
            R.bad("piece_unreadable", f"piece {i}: {type(e).__name__}: {e}")
            return R
        ev = [lib._ev(t, m) for t, m in stream]
        if sorted(ev, key=str) != sorted(ea, key=str) or d != da:
            R.bad("piece_views_disagree", f"piece {i}: rel {ev},{d} abs {ea},{da}")
        pn, orphans, retrig, unclosed = lib.pair_notes(ev, ordered=True)
        if unclosed:
            R.bad("piece_ends_with_sounding_note", f"piece {i}: {unclosed}; stream {ev}")
        if orphans or retrig:
            R.bad("piece_ill_formed", f"piece {i}: orphans {orphans} retriggers {retrig}; stream {ev}")
        if i < len(pieces) - 1 and i < len(caps) and d != caps[i]:
            R.bad("piece_duration_not_its_capacity", f"piece {i} lasts {d}, capacity {caps[i]}; durations so far {durs}")
        got_notes.extend((n[0], n[1], n[2] + start, n[3] + start, n[4]) for n in pn)
        got_events.extend((e[0] + start,) + e[1:] for e in lib.non_note(ev))
        durs.append(d)
        start += d
    if start != D:
        R.bad("durations_do_not_sum_to_source", f"pieces last {durs}, source {D}")
    want = vel_roll(lib.desc_notes(notes))
    got = vel_roll(got_notes)
    if set(want) != set(got):
        R.bad("sounding_set_changed", f"missing {sorted(set(want) - set(got))[:6]} extra {sorted(set(got) - set(want))[:6]}; pieces {got_notes}")
    elif want != got:
        R.bad("velocity_changed_at_cut", f"{[(k, want[k], got[k]) for k in want if want[k] != got[k]][:4]}")
    want_ev = sorted(lib.non_note(before["abs"][0]), key=str)
    if sorted(got_events, key=str) != want_ev:
        R.bad("non_note_event_lost_or_moved", f"source {want_ev} pieces {sorted(got_events, key=str)} durations {durs}")
    after = lib.obs(src)
    if (before["abs"], before["rel"]) != (after["abs"], after["rel"]):
        R.bad("source_changed_by_split", f"before {before} after {after}")
    R.outcome = f"p{min(len(pieces), 4)}" + ("x" if crossing else "")
    R.tags = {"n_notes": len(notes), "n_events": len(events)}
    return R


_m = sys.modules[__name__]
run_unit = core.std_run_unit(_m)
replay = core.std_replay(_m)
