"""Writes seeded/<name>/meta.json from DESCRIPTIONS.json + run.json and prints the DESIGN.md table."""
import glob, json, os, re
V = os.path.dirname(os.path.dirname(os.path.abspath(__file__)))
D = json.load(open(f"{V}/seeded/DESCRIPTIONS.json"))
rows = []
for d in sorted(glob.glob(f"{V}/seeded/C*")):
    name = os.path.basename(d)
    pid = name.split("_")[0]
    run = json.load(open(f"{d}/run.json")) if os.path.exists(f"{d}/run.json") else {}
    what, needs = D.get(name, ["?", "?"])
    checks = run.get("checks", {})
    sigs = sorted({l.split("signature: ")[1] for c in checks.values() for l in c.get("lines", []) if "signature: " in l})
    caught = bool(checks) and all(c["exit"] == 1 for c in checks.values())
    meta = {
        "name": name, "property": pid, "round": int(re.search(r"_r(\d)", name).group(1)) if "_r" in name else 1,
        "written_by": "fresh sub-agent given only the property text and a scratch worktree of /repo",
        "change": what, "needs_to_manifest": needs,
        "files": {"patch": "patch.diff", "demonstration": "demo.py"},
        "confirmed": {
            "repository_tests_with_change": run.get("tests_with_change"),
            "demo_exit_with_change": run.get("demo_with_change_exit"),
            "demo_exit_without_change": run.get("demo_without_change_exit"),
            "applied_with_3way_merge_onto_later_fixes": run.get("applied_with_3way", False),
        },
        "commands": ["round 7: see what_was_run_in_round_7 (tests-only pass + quick check per change)"] if "_r7" in name and "checks_run" in run else [
            "python -m mc.seedrun seeded/%s/patch.diff seeded/%s/demo.py %s --seeds 0,1   (scratch worktree; suite, demo with/without, ./check %s --tier quick with SCODA_VERIF_ROOT=<worktree>)" % (name, name, pid, pid)],
        "what_was_run_in_round_7": ({"suite": run.get("suite_run"), "checks": run.get("checks_run"),
                                     "first_contact_quick_check_exit_seed0": run.get("first_contact_quick_check_exit_seed0")}
                                    if "_r7" in name else None),
        "quick_check_verdicts": {k: v["exit"] for k, v in checks.items()},
        "violation_signatures": sigs,
        "caught_by_quick_check": caught,
    }
    json.dump(meta, open(f"{d}/meta.json", "w"), indent=1)
    rows.append((name, pid, what, needs, caught, sigs))
if __name__ == "__main__":
    for name, pid, what, needs, caught, sigs in rows:
        print(f"| {name} | {what} | {needs} | {'yes' if caught else 'NO'}: {', '.join(sigs[:2])} |")
    print(sum(1 for r in rows if r[4]), "of", len(rows), "caught")
