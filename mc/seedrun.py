"""Confirms one seeded change and runs checks against it on a scratch worktree (never /repo).

usage: python -m mc.seedrun <patch.diff> <demo.py> <PID> [--all] [--tier quick] [--seeds 0,1,2]
Prints a JSON record: tests with the change, demo with / without, per-check verdicts.
"""
import json, os, subprocess, sys, tempfile, shutil, time

WT = os.environ.get("SEED_WT", "/tmp/wt_verify")
V = os.path.dirname(os.path.dirname(os.path.abspath(__file__)))
ALL = ["C%02d" % i for i in range(1, 21)]


def sh(cmd, **kw):
    return subprocess.run(cmd, shell=True, capture_output=True, text=True, **kw)


def ensure_wt():
    if not os.path.isdir(WT):
        r = sh(f"git -C /repo worktree add -q --detach {WT} HEAD")
        assert r.returncode == 0, r.stderr
    sh(f"git -C {WT} reset -q --hard; git -C {WT} checkout -q --detach $(git -C /repo rev-parse HEAD) && git -C {WT} reset -q --hard && git -C {WT} clean -fdq")
    os.makedirs(os.path.join(WT, "out"), exist_ok=True)


def main():
    patch, demo, pid = sys.argv[1:4]
    run_all = "--all" in sys.argv
    tier = sys.argv[sys.argv.index("--tier") + 1] if "--tier" in sys.argv else "quick"
    seeds = [int(x) for x in (sys.argv[sys.argv.index("--seeds") + 1] if "--seeds" in sys.argv else "0").split(",")]
    skip_tests = "--skip-tests" in sys.argv
    ensure_wt()
    env = dict(os.environ, PYTHONPATH=WT, PYTHONDONTWRITEBYTECODE="1")
    rec = {"patch": patch, "demo": demo, "property": pid, "tier": tier}
    r = sh(f"python3 {demo}" if False else f"cd {WT} && /venv/bin/python {demo}", env=env)
    rec["demo_without_change_exit"] = r.returncode
    r = sh(f"git -C {WT} apply {patch}")
    if r.returncode != 0:      # the tree has moved on since the change was written (later fix: commits): merge it
        r = sh(f"git -C {WT} apply --3way {patch}")
        rec["applied_with_3way"] = True
        if r.returncode != 0 or "with conflicts" in (r.stdout + r.stderr):
            sh(f"git -C {WT} reset -q --hard")
            rec["error"] = "patch needs rebasing onto the current tree: " + (r.stdout + r.stderr)[-300:]
            print(json.dumps(rec, indent=1)); return 2
    if r.returncode != 0:
        rec["error"] = "patch does not apply: " + r.stderr[-300:]
        print(json.dumps(rec, indent=1)); return 2
    try:
        if not skip_tests:
            r = sh(f"cd {WT} && /venv/bin/python -m pytest -q -p no:cacheprovider -n 12 2>&1 | tail -3", env=env)
            rec["tests_with_change"] = r.stdout.strip().splitlines()[-1] if r.stdout.strip() else r.stderr[-200:]
        r = sh(f"cd {WT} && /venv/bin/python {demo}", env=env)
        rec["demo_with_change_exit"] = r.returncode
        rec["demo_output"] = (r.stdout + r.stderr)[-600:]
        out = tempfile.mkdtemp(prefix="seedout_")
        rec["checks"] = {}
        for p in (ALL if run_all else [pid]):
            for sd in seeds:
                t0 = time.time()
                r = sh(f"cd {V} && ./check {p} --tier {tier}", env=dict(os.environ, SCODA_VERIF_ROOT=WT, VERIF_OUT=out, VERIF_SEED=str(sd)))
                lines = [l for l in (r.stdout + r.stderr).splitlines() if l.startswith(("VIOLATION", "  signature", "HARNESS", "KNOWN"))]
                rec["checks"][f"{p}@seed{sd}"] = {"exit": r.returncode, "wall_s": round(time.time() - t0, 1), "lines": lines[:6]}
        shutil.rmtree(out, ignore_errors=True)
    finally:
        sh(f"git -C {WT} reset -q --hard && git -C {WT} clean -fdq")
    print(json.dumps(rec, indent=1))
    return 0


if __name__ == "__main__":
    sys.exit(main())
