"""Non-initial states for the E1 properties ("start from non-initial states too").

Most properties quantify over *sequences*; a sequence object reached through a history of public
operations must behave exactly like a freshly built one with the same content.  This module provides
a small alphabet of legal, content-tracked history operations; a property's sweep applies every
history up to a depth bound to a seed, reads the resulting content back through the public views
(`observe_desc`), and then runs its ordinary oracle on the *live object*, with the expectation
computed from that observed content.  A cache that an operation forgot to invalidate, state left in
a module-level table, or message objects aliased inside one sequence (Sequence.concatenate shares
them) then shows up as a difference between the live object and the model.
"""
from __future__ import annotations

import itertools

from mc import lib
from mc.lib import on, off, wait
from scoda.enumerations.message_type import MessageType as MT


def _motif(p):
    """a tiny relative-built motif; concatenating it twice puts the SAME Message objects twice into the target"""
    return lib.seq_rel([(0, 3, p, 0, 33)], [], 5)


def _concat_alias(s, ctx):
    m = _motif(ctx.get("hp", 50))
    s.concatenate([m, m])


def _rejected_scale(s, ctx):
    try:
        s.scale(1.5, quantise_afterwards=False)
    except Exception:  # noqa: BLE001
        return "raised"


def _concat_copy(s, ctx):
    s.concatenate([s.copy()])


def _edit_wait(s, ctx):
    # stretch the first wait by 2 ticks through the public generator
    for m in s.messages_rel():
        if m.message_type is MT.WAIT:
            m.time = m.time + 2
            break


def _edit_pitch(s, ctx):
    for m in s.messages_abs():
        if m.message_type in (MT.NOTE_ON, MT.NOTE_OFF) and m.note == ctx.get("hp_edit", -1):
            m.note = m.note + 2


def _add_note(s, ctx):
    p = ctx.get("hp", 50) + 1
    s.add_absolute_message(on(1, p, 0, 44))
    s.add_absolute_message(off(4, p, 0))


def _tokenise(s, ctx):
    from scoda.tokenisation.notelike_tokenisation import MultiTrackLargeVocabularyNotelikeTokeniser as Tok
    t = Tok(num_tracks=1)
    try:
        t.get_info(t.tokenise([s.copy()]))
    except Exception:  # noqa: BLE001  (input need not be tokenisable)
        pass


def _key_guess(s, ctx):
    s.rel.get_key_signature_guess()


# ---- legal operations with unusual arguments (round 7): the values are derived from the live content, so that they
# hit the relations a fixed small argument never does (a pad to exactly the current duration, a cut-off equal to an
# existing length, a split whose pieces are joined again, a second and third stretch factor, a wrap by several octaves)

def _cur_dur(s):
    return int(lib.view_rel(s)[1])


def _lengths(s):
    pn = lib.pair_notes(lib.view_abs(s)[0])[0]
    return sorted(n[3] - n[2] for n in pn) or [1]


def _cutoff_existing(s, ctx):
    L = _lengths(s)[0]                      # the shortest existing length: notes of exactly L stay, longer ones become L
    s.cutoff(L, L)


def _cutoff_longest(s, ctx):
    L = _lengths(s)[-1]
    if L > 1:
        s.cutoff(L - 1, max(1, L // 2))     # only the longest note(s) are shortened


def _split_rejoin(s, ctx):
    # cut in the middle of the longest note and join the pieces again: a note crossing the cut becomes two abutting notes
    pn = lib.pair_notes(lib.view_abs(s)[0])[0]
    if not pn:
        return
    n = max(pn, key=lambda x: (x[3] - x[2], x))
    cut = n[2] + (n[3] - n[2]) // 2         # inside the longest note
    if cut <= 0:
        return
    parts = s.split([cut])
    head = parts[0]
    head.concatenate(parts[1:])
    s.overwrite_relative_messages([m.copy() for m in head.messages_rel()])


def _split_discard(s, ctx):
    s.split([7, 13, 7])                     # results discarded: the source must not change


def _overwrite_abs_self(s, ctx):
    s.overwrite_absolute_messages([m.copy() for m in list(s.messages_abs())])


# name -> fn(sequence, ctx); every operation is legal on any well-formed sequence and keeps it well-formed
HIST_OPS = {
    "q_duration_relation": lambda s, c: s.get_sequence_duration_relation(),
    "q_pairings": lambda s, c: s.get_message_pairings(),
    "q_is_empty": lambda s, c: s.is_empty(),
    "q_key_guess": _key_guess,
    "q_tokenise_copy": _tokenise,
    "read_abs": lambda s, c: s.abs,
    "read_rel": lambda s, c: s.rel,
    "refresh": lambda s, c: s.refresh(),
    "pad_below": lambda s, c: s.pad(1),
    "pad_above": lambda s, c: s.pad(int(lib.view_rel(s)[1]) + 7),
    "scale2": lambda s, c: s.scale(2, quantise_afterwards=False),
    "transpose+1": lambda s, c: s.transpose(1),
    "transpose-1": lambda s, c: s.transpose(-1),
    "cutoff_nothing": lambda s, c: s.cutoff(10 ** 6, 10 ** 6),
    "normalise": lambda s, c: s.normalise(),
    "set_channel_same": lambda s, c: None,
    "concat_alias": _concat_alias,
    "concat_copy": _concat_copy,
    # the sequence as its own operand
    "concat_self": lambda s, c: s.concatenate([s]),
    "merge_self": lambda s, c: s.merge([s]),
    # a call the library rejects by design (non-integral stretch factor), the caller carries on with the same object
    "rejected_scale": _rejected_scale,
    "add_note": _add_note,
    "add_wait": lambda s, c: s.add_relative_message(wait(5)),
    "edit_wait": _edit_wait,
    "iter_rel_noedit": lambda s, c: [None for _ in s.messages_rel()],
    "iter_abs_first": lambda s, c: next(s.messages_abs(), None),
    "to_midi_track": lambda s, c: s.to_midi_track(),
    "equals_self_ignoring_signatures": lambda s, c: s.equals(s, ignore_time_signature=True, ignore_key_signature=True),
    # round 7: unusual legal arguments, derived from the live content
    "pad_exact": lambda s, c: s.pad(_cur_dur(s)),
    "scale3": lambda s, c: s.scale(3, quantise_afterwards=False),
    "scale5": lambda s, c: s.scale(5, quantise_afterwards=False),
    "cutoff_existing": _cutoff_existing,
    "cutoff_longest": _cutoff_longest,
    "quantise_unit": lambda s, c: s.quantise([1]),
    "quantise_5_7": lambda s, c: s.quantise([5, 7]),
    "transpose_wrap": lambda s, c: s.transpose(50),
    "transpose_octave_down": lambda s, c: s.transpose(-12),
    "set_channel_5": lambda s, c: s.set_channel(5),
    "split_discard": _split_discard,
    "split_rejoin": _split_rejoin,
    "overwrite_abs_self": _overwrite_abs_self,
    # comparisons of one representation with that of a copy (the dunder methods convert internally)
    "q_rel_eq_copy": lambda s, c: s.rel == s.copy().rel,
    "q_abs_eq_copy": lambda s, c: s.abs == s.copy().abs,
    "q_seq_eq_copy": lambda s, c: s == s.copy(),
}
HIST_NAMES = list(HIST_OPS)
# thorough tier: every history of three operations over the content-changing part of the alphabet
MUTATORS3 = ["scale3", "cutoff_existing", "split_rejoin", "transpose_wrap", "concat_alias", "merge_self", "pad_exact",
             "quantise_5_7", "add_note", "edit_wait", "read_abs", "read_rel"]
TIER = "quick"        # set by core.run_check before the units are enumerated (workers are forked afterwards)


def histories(depth, names=None):
    names = names or HIST_NAMES
    yield []
    for k in range(1, depth + 1):
        for h in itertools.product(names, repeat=k):
            yield list(h)


REJECTED = ("rejected_scale",)


def apply(s, hist, ctx, R=None):
    """apply a history; 'copy' semantics are not used here (the live object is kept).  A call that the library rejects
    (raises) is 'no operation': with a result object R given, the content read through both views before and after
    such a call is compared"""
    for name in hist:
        if name in REJECTED and R is not None:
            before = (lib.view_abs(s)[:2], lib.view_rel(s)[:2])
            if HIST_OPS[name](s, ctx) == "raised":
                after = (lib.view_abs(s)[:2], lib.view_rel(s)[:2])
                R.flags.append("rejected_call_in_history")
                if after != before:
                    R.bad("rejected_call_changed_the_sequence", f"{name}: (abs, rel) before {before} after {after}")
        else:
            HIST_OPS[name](s, ctx)
    return s


def observe_desc(s):
    """content of a live sequence read back through the public views:
    (notes as description tuples (onset, len, pitch, ch, vel), events, duration) or None if ill-formed / views disagree"""
    ea, da, ta = lib.view_abs(s)
    er, dr, tr = lib.view_rel(s)
    if (ea, da) != (er, dr):
        return None
    pn, orph, retr, uncl = lib.pair_notes(ea)
    if orph or retr or uncl:
        return None
    notes = [(n[2], n[3] - n[2], n[1], n[0], n[4]) for n in pn]
    events = []
    for e in lib.non_note(ea):
        if e[1] == "time_signature":
            events.append(("ts", e[0], e[5], e[6]))
        elif e[1] == "key_signature":
            events.append(("ks", e[0], e[7]))
        else:
            return None
    if not lib.well_formed(notes) or any(n[1] <= 0 for n in notes):
        return None
    return sorted(notes), events, da


# ---- shared seeds for the "after a history" families -------------------------------------------------

def seed_descs(p, c0=0, c1=1):
    """well-formed seed contents: (notes, events, dur)"""
    return [
        # long note on the first channel, short on the last; an uncommon signature
        ([(0, 30, p, c0, 64), (5, 5, p + 1, c1, 30)], [("ts", 0, 7, 8)], 60),
        # one channel, three notes, abutting repeat, key signature mid-way
        ([(0, 6, p, c0, 64), (6, 6, p, c0, 50), (14, 12, p + 4, c0, 90)], [("ks", 6, "G")], 40),
        # ticks in the hundreds, extreme pitches on neighbouring channels
        ([(100, 250, 108, c0, 127), (333, 7, 21, c1, 1), (400, 36, p, c0, 64)], [("ts", 0, 12, 8), ("ts", 288, 5, 4)], 1000),
    ]


def build_seed(desc, build):
    notes, events, dur = desc
    return (lib.seq_abs if build == "abs" else lib.seq_rel)(notes, events, dur)


def hist_units(depth=2):
    """one unit per (seed, build, first history op)"""
    for si in range(3):
        for b in ("abs", "rel"):
            yield ("hist", si, b, None)
            if depth >= 1:
                for h0 in HIST_NAMES:
                    yield ("hist", si, b, h0)


def hist_of_unit(unit, depth=2):
    """all histories of the unit: [] for the None unit, else [h0] and [h0, h1] for every h1"""
    _, si, b, h0 = unit
    if h0 is None:
        return [[]]
    out = [[h0]]
    if depth >= 2:
        out += [[h0, h1] for h1 in HIST_NAMES]
    if TIER == "thorough" and h0 in MUTATORS3:
        out += [[h0, h1, h2] for h1 in MUTATORS3 for h2 in MUTATORS3]
    return out


def live_case(case, R, p=60, c0=0, c1=1, hp=50):
    """For a case {"seed","build","hist",...}: the live sequence after the history and its content read back through
    the public views, or None when the history is not applicable (R.outcome says why)."""
    s = build_seed(seed_descs(p, c0, c1)[case["seed"]], case["build"])
    try:
        apply(s, case["hist"], {"hp": hp}, R)
    except Exception as e:  # noqa: BLE001
        R.outcome = "history_raises:" + type(e).__name__
        return None
    if R.viols:
        return None
    d = observe_desc(s)
    if d is None:
        R.outcome = "history_leaves_unobservable_state"
        return None
    R.flags.append("after_history")
    if "concat_alias" in case["hist"] or "concat_self" in case["hist"]:
        R.flags.append("aliased_messages_inside_sequence")
    return s, [list(n) for n in d[0]], [list(e) for e in d[1]], d[2]
