"""Regenerates /verif/MANIFEST.json from the table below (run: /venv/bin/python -m mc.gen_manifest)."""
import json, os
V = os.path.dirname(os.path.dirname(os.path.abspath(__file__)))
T = {
 "C01": ("E1-sweep", "bounded-exhaustive round trips over all small pieces x the tokeniser configuration lattice, compared with a description-derived reference (explicit enumeration, no sampling)", "5.C01"),
 "C02": ("E1-sweep", "complete enumeration of every vocabulary of the configuration lattice + closure of all emitted tokens (explicit enumeration)", "5.C02"),
 "C03": ("E2-bfs", "explicit-state exploration of all partitions of the bar sequence as paths of the carried-state graph, checked against single-call tokenisation and the description", "5.C03"),
 "C04": ("E2-bfs", "explicit-state BFS over histories of public Sequence operations with view-agreement invariant, differential freshness oracle and closed freshness automaton replayed on the implementation", "5.C04"),
 "C05": ("E1-sweep", "bounded-exhaustive enumeration of note sets x step lists (also on live objects after every history of depth <= 2) against the quantisation contract model", "5.C05"),
 "C06": ("E1-sweep", "bounded-exhaustive enumeration of note sets x value lists x extension flag against an independent fit model", "5.C06"),
 "C07": ("E1-sweep", "exhaustive enumeration of all message words up to a length bound, output replayed by an independent open-note automaton", "5.C07"),
 "C08": ("E1-sweep", "bounded-exhaustive enumeration of sequences x capacity lists against the conservation contract", "5.C08"),
 "C09": ("E1-sweep", "bounded-exhaustive enumeration of multi-track bar plans against the bar-grid reference model", "5.C09"),
 "C10": ("E1-sweep", "bounded-exhaustive enumeration of Bar constructor arguments against the accept/reject contract", "5.C10"),
 "C11": ("E2-bfs", "explicit-state BFS over typed operation histories on a workspace of live objects with the integer-tick invariant on every state", "5.C11"),
 "C12": ("E1-sweep", "bounded-exhaustive enumeration of sequence lists saved and re-loaded through real MIDI files, compared with the description", "5.C12"),
 "C13": ("E1-sweep", "bounded-exhaustive enumeration of MIDI files (resolutions x delta words x groupings) against exact rational positions and routing tables", "5.C13"),
 "C14": ("E1-sweep", "bounded-exhaustive enumeration of sequences/bars x all intervals in [-100,100] against the pitch-class shift model", "5.C14"),
 "C15": ("E1-sweep", "bounded-exhaustive enumeration of sequence families and all their permutations against the union model", "5.C15"),
 "C16": ("E2-bfs", "explicit-state exploration of (original, derived) pairs under all short operation histories on either side with the non-interference invariant", "5.C16"),
 "C17": ("E1-sweep", "bounded-exhaustive enumeration of base sequences x all single-attribute perturbations x all flag sets against a table-driven oracle", "5.C17"),
 "C18": ("E1-sweep", "bounded-exhaustive enumeration of sequences x argument values (also on live objects after every history of depth <= 2) against list-model predictions", "5.C18"),
 "C19": ("E2-bfs", "exhaustive tree of all token streams up to a length bound + state graph of the reference clock with every edge and four probe streams replayed on the implementation, each checked against the reference clock and detokenise", "5.C19"),
 "C20": ("E1-sweep", "complete enumeration of the finite domains (15 keys x intervals, 128x128 pitch pairs), repeated after nine call histories in fresh processes, against an independent algebra", "5.C20"),
}
def main():
    checks, na = [], []
    for pid, (eng, tech, ref) in sorted(T.items()):
        if not os.path.exists(os.path.join(V, "mc", "props", pid.lower() + ".py")):
            na.append({"property_id": pid, "reason": "check not built yet in this revision (planned, see DESIGN.md section " + ref + ")"})
            continue
        checks.append({
            "property_id": pid,
            "quick_cmd": f"./check {pid} --tier quick",
            "thorough_cmd": f"./check {pid} --tier thorough",
            "evidence_file": f"/verif/evidence/{pid}.json",
            "replay_cmd_template": f"./check {pid} --replay {{path}}",
            "engine": eng,
            "level_claimed": {"category": "model_checking",
                              "text": "Every case of the stated finite alphabet up to the stated bound is executed on the real implementation and compared with a reference model / invariant; the claim is small-scope exhaustive, not a proof for unbounded inputs.",
                              "design_ref": "DESIGN.md section " + ref},
            "level_note": "Trusted base: CPython, mido (C12/C13), the harness's own reference models; alphabets and bounds as recorded in the evidence file; values outside the alphabets are covered only by the uniformity argument of DESIGN.md section 6.",
            "technique": "model checking: " + tech,
        })
    m = {
        "version": 1,
        "setup_cmd": "cd /repo && mkdir -p out && cd /verif && /venv/bin/python -B -c \"import sys; sys.path.insert(0,'.'); import mc.core as c; c.boot(); print('ok', c.ROOT)\"",
        "hooks": {"guard": "SCODA_VERIF", "enable": "no source hooks are needed: checks import scoda straight from /repo's working tree (pure Python, no build step); SCODA_VERIF is reserved and unused",
                  "baseline_off_cmd": "cd /repo && mkdir -p out && /venv/bin/python -m pytest -ra -q -p no:cacheprovider --timeout=900 --continue-on-collection-errors",
                  "source_commits": [], "add_only": True},
        "engines": [
            {"name": "E1-sweep", "path": "mc/core.py", "serves_properties": [p for p, t in sorted(T.items()) if t[0] == "E1-sweep"], "kind_free_text": "bounded-exhaustive enumeration of inputs x configurations on the real code, reference-model oracle"},
            {"name": "E2-bfs", "path": "mc/core.py", "serves_properties": [p for p, t in sorted(T.items()) if t[0] == "E2-bfs"], "kind_free_text": "explicit-state breadth-first exploration of operation histories on live objects, canonical-key deduplication, replay-from-history"},
        ],
        "checks": checks,
        "not_applicable": na,
        "notes": "Single entry point ./check <ID> --tier quick|thorough [--replay file]. Exit 0 held / 1 violation / 2 harness error. known_findings.jsonl lists open and fixed findings. VERIF_SEED only rotates which explored cases are shown as samples and isomorphic constants; the enumerated space is always complete. Besides the small-scope lattices every check enumerates scale ladders (33..1025 notes, tick distances up to 70001, 15..65 bars, pauses up to 300 bars, nesting up to 12), positional families (an insertion / a touching phrase / a note end at EVERY position of a long sequence), carrier types (numpy integer ticks, list arguments as tuple / generator / iterator) and failure paths (rejected calls inside histories); the evidence rule of each check lists them after '|| scale families:'.",
    }
    json.dump(m, open(os.path.join(V, "MANIFEST.json"), "w"), indent=1)
    print(len(checks), "checks;", len(na), "pending")
if __name__ == "__main__":
    main()
