"""Constructors for library objects from plain case descriptions, and the harness's own
observation functions (independent of get_message_pairings / Sequence.equals).

A *note* in a case description is a tuple  (onset, length, pitch, channel, velocity).
An *event* in a case description is a tuple ("ts", tick, num, den) or ("ks", tick, key_name).
"""
from __future__ import annotations

import numbers

from mc.core import clone

from scoda.elements.message import Message
from scoda.enumerations.message_type import MessageType as MT
from scoda.misc.music_theory import Key
from scoda.sequences.relative_sequence import RelativeSequence
from scoda.sequences.sequence import Sequence

NOTE_KINDS = (MT.NOTE_ON, MT.NOTE_OFF)


# ---- carrier types ----------------------------------------------------------------------------
# The same tick values handed over in another integer type a caller may legitimately use (numpy integers as they come
# out of np.arange / np.diff / piano-roll arrays).  `set_tick("int64")` switches the type of every tick the builders
# below put into a message; observation compares numerically, so expectations stay plain ints.
_TICK = [int]


def set_tick(name=None):
    if not name or name == "int":
        _TICK[0] = int
    elif name == "half":        # every tick of the description halved: content on the half-tick lattice (floats)
        _TICK[0] = lambda t: t / 2
    else:
        import numpy as np
        _TICK[0] = getattr(np, name)


def tk(t):
    return t if t is None or _TICK[0] is int else _TICK[0](t)


def carriers(xs):
    """the same finite list handed over as list, tuple, generator, iterator, map object and numpy array"""
    import numpy as np
    xs = list(xs)
    return {"list": lambda: list(xs), "tuple": lambda: tuple(xs), "generator": lambda: (x for x in xs),
            "iterator": lambda: iter(xs), "map": lambda: map(lambda x: x, xs), "reversed": lambda: reversed(xs[::-1]),
            "numpy": lambda: np.array(xs, dtype=np.int64)}


CARRIERS = ("tuple", "generator", "iterator", "map", "reversed", "numpy")


def with_carriers(gen, every, key, names=CARRIERS):
    """every `every`-th case of a case generator repeated with case[key] = one of the carrier names (cycling)"""
    for i, c in enumerate(gen):
        yield c
        if i % every == 0 and isinstance(c, dict) and key not in c:
            yield dict(c, **{key: names[(i // every) % len(names)]})


# ---- message constructors -------------------------------------------------------------------

def on(t, p, ch=0, v=64): return Message(message_type=MT.NOTE_ON, channel=ch, note=p, velocity=v, time=t)
def off(t, p, ch=0): return Message(message_type=MT.NOTE_OFF, channel=ch, note=p, time=t)
def ts(t, n, d, ch=0): return Message(message_type=MT.TIME_SIGNATURE, channel=ch, numerator=n, denominator=d, time=t)
def ks(t, k, ch=0): return Message(message_type=MT.KEY_SIGNATURE, channel=ch, key=Key(k) if isinstance(k, str) else k, time=t)
def cap(t, ch=0): return Message(message_type=MT.INTERNAL, channel=ch, time=t)
def wait(t, ch=0): return Message(message_type=MT.WAIT, channel=ch, time=t)
def prog(t, p, ch=0): return Message(message_type=MT.PROGRAM_CHANGE, channel=ch, program=p, time=t)


def event_msgs(events, ch=0):
    out = []
    for e in events:
        if e[0] == "ts":          # an event may name its own channel as a last field
            out.append(ts(e[1], e[2], e[3], e[4] if len(e) > 4 else ch))
        elif e[0] == "ks":
            out.append(ks(e[1], e[2], e[3] if len(e) > 3 else ch))
        elif e[0] == "pc":
            out.append(prog(e[1], e[2], ch))
        elif e[0] == "cc":
            out.append(Message(message_type=MT.CONTROL_CHANGE, channel=ch, control=e[2], velocity=e[3], time=e[1]))
        else:
            raise ValueError(e)
    return out


def seq_abs(notes=(), events=(), dur=None, ch_events=0, order="sane"):
    """Sequence built through add_absolute_message only (absolute view fresh, relative stale).
    order="sane": messages are inserted in time order, at one tick offs, then signatures, then ons, so that a
    well-formed description always yields a well-formed stored order.  The other orders insert the SAME timed events
    in another sequence of calls (the library has to canonicalise ties itself): "reverse" = the sane order backwards,
    "ons_first" = every note-on, then every note-off, then the other events; "voices", "halves", "stride<k>": see below."""
    s = Sequence()
    items, _ = timed_list(notes, events, None, ch_events)
    if order == "reverse":
        items = items[::-1]
    elif order == "ons_first":
        items = [it for it in items if it[1] == 2] + [it for it in items if it[1] == 0] + [it for it in items if it[1] == 1]
    elif order == "voices":      # voice by voice (voice = pitch modulo 3), signatures last
        items = sorted(items, key=lambda it: (it[1] == 1, it[2] % 3))
    elif order == "halves":      # first and second half of the piece alternating
        h = len(items) // 2
        items = [x for pair in zip(items[:h], items[h:2 * h]) for x in pair] + items[2 * h:]
    elif isinstance(order, str) and order.startswith("stride"):
        import math
        k, m = int(order[6:]), len(items)
        while m and math.gcd(k, m) != 1:
            k += 2
        items = [items[(i * k) % m] for i in range(m)]
    for it in items:
        m = it[4]
        m.time = tk(it[0])
        s.add_absolute_message(m)
    if dur is not None:
        s.add_absolute_message(cap(tk(dur), ch_events))
    if order == "canonical":     # the library's own canonical order (AbsoluteSequence.sort: tick, channel, kind, pitch)
        s.abs.sort()
    return s


def timed_list(notes=(), events=(), dur=None, ch_events=0):
    """Description -> canonical sorted list of (tick, order, message) in a sane order:
    at one tick: offs, then signatures, then ons."""
    items = []
    for n in notes:
        o, d, p = n[:3]
        ch = n[3] if len(n) > 3 else 0
        v = n[4] if len(n) > 4 else 64
        items.append((o, 2, p, ch, on(None, p, ch, v)))
        items.append((o + d, 0, p, ch, off(None, p, ch)))
    for m in event_msgs(events, ch_events):
        t = m.time
        m.time = None
        items.append((t, 1, 0, 0, m))
    items.sort(key=lambda x: x[:4])
    return items, dur


def seq_rel(notes=(), events=(), dur=None):
    """Sequence built from a RelativeSequence (relative view fresh, absolute stale)."""
    items, dur = timed_list(notes, events, dur)
    msgs, t = [], 0
    for it in items:
        if it[0] > t:
            msgs.append(wait(tk(it[0] - t), it[3]))
            t = it[0]
        msgs.append(it[4])
    if dur is not None and dur > t:
        msgs.append(wait(tk(dur - t)))
    return Sequence(relative_sequence=RelativeSequence(msgs))


# ---- observation ------------------------------------------------------------------------------

def plain(t):
    """numpy integers are observed as plain ints (their type is recorded separately in the views' type sets)"""
    return int(t) if type(t) is not int and isinstance(t, numbers.Integral) and not isinstance(t, bool) else t


def _ev(t, m):
    return (plain(t), m.message_type.value, m.channel, m.note, m.velocity, m.numerator, m.denominator,
            m.key.value if m.key is not None else None, m.program) + \
           ((m.control,) if getattr(m, "control", None) is not None else ())     # control changes carry a tenth field


def view_abs(s):
    """(events, duration, time_types) through the absolute view, on a private copy."""
    c = clone(s)
    ev, dur, types = [], 0, set()
    for m in c.messages_abs():
        types.add(type(m.time))
        if m.time > dur:
            dur = m.time
        if m.message_type is not MT.INTERNAL and m.message_type is not MT.WAIT:
            ev.append(_ev(m.time, m))
    ev.sort(key=lambda e: tuple((x is None, x) for x in e))
    return ev, plain(dur), types


def view_rel(s):
    """(events, duration, time_types) through the relative view, on a private copy."""
    c = clone(s)
    ev, t, types = [], 0, set()
    for m in c.messages_rel():
        if m.message_type is MT.WAIT:
            types.add(type(m.time))
            t += m.time
        elif m.message_type is not MT.INTERNAL:
            ev.append(_ev(t, m))
    ev.sort(key=lambda e: tuple((x is None, x) for x in e))
    return ev, plain(t), types


def rel_stream(s):
    """Relative view as an ordered list of (tick, message) in message order (for order-sensitive
    replay by the pairing automaton)."""
    c = clone(s)
    out, t = [], 0
    for m in c.messages_rel():
        if m.message_type is MT.WAIT:
            t += m.time
        else:
            out.append((plain(t), m))
    return out, plain(t)


def pair_notes(events, ordered=False):
    """The harness's own pairing automaton.

    events: list of event tuples (tick, kind, ch, pitch, vel, ...).  If not `ordered`, events on
    one tick are processed offs first (absolute view); otherwise in the given order (relative view).
    Returns (notes, orphans, retriggers, unclosed) with notes = sorted (ch, pitch, onset, end, vel).
    Per (channel, pitch) FIFO.
    """
    if not ordered:
        events = sorted(events, key=lambda e: (e[0], 0 if e[1] == "note_off" else 1))
    open_ = {}
    notes, orphans, retrig = [], [], []
    for e in events:
        if e[1] == "note_on":
            k = (e[2], e[3])
            q = open_.setdefault(k, [])
            if q:
                retrig.append((e[2], e[3], e[0]))
            q.append((e[0], e[4]))
        elif e[1] == "note_off":
            k = (e[2], e[3])
            q = open_.get(k)
            if q:
                t0, v = q.pop(0)
                notes.append((e[2], e[3], t0, e[0], v))
            else:
                orphans.append((e[2], e[3], e[0]))
    unclosed = sorted((k[0], k[1], t0) for k, q in open_.items() for t0, _ in q)
    return sorted(notes), sorted(orphans), sorted(retrig), unclosed


def roll_of_events(events, ordered=False):
    """Sounding set {(ch, pitch, tick)} by nesting depth > 0 (an orphan off is ignored, an
    unclosed on sounds to the last event tick only, i.e. not at all beyond)."""
    if not ordered:
        events = sorted(events, key=lambda e: (e[0], 0 if e[1] == "note_off" else 1))
    depth, since, out = {}, {}, set()
    for e in events:
        if e[1] == "note_on":
            k = (e[2], e[3])
            if depth.get(k, 0) == 0:
                since[k] = e[0]
            depth[k] = depth.get(k, 0) + 1
        elif e[1] == "note_off":
            k = (e[2], e[3])
            if depth.get(k, 0) > 0:
                depth[k] -= 1
                if depth[k] == 0:
                    out.update((k[0], k[1], t) for t in range(since[k], e[0]))
    return out


def roll_of_notes(notes):
    """notes given as (ch, pitch, onset, end, ...) -> sounding set."""
    out = set()
    for n in notes:
        out.update((n[0], n[1], t) for t in range(n[2], n[3]))
    return out


def desc_notes(notes):
    """case-description notes (onset, len, pitch, ch, vel) -> observation form (ch, pitch, on, end, vel)."""
    return sorted((n[3] if len(n) > 3 else 0, n[2], n[0], n[0] + n[1], n[4] if len(n) > 4 else 64) for n in notes)


def non_note(events):
    return [e for e in events if e[1] not in ("note_on", "note_off")]


def obs(s):
    """Full observation through both views: dict with events/duration/notes per view."""
    ea, da, ta = view_abs(s)
    er, dr, tr = view_rel(s)
    return {"abs": (ea, da), "rel": (er, dr), "types": ta | tr}


def obs_key(s):
    """Hashable canonical observation through the absolute view (after agreement was checked)."""
    ea, da, _ = view_abs(s)
    return (tuple(ea), da)


def well_formed(notes):
    """Description notes: positive length, no overlap per (channel, pitch); abutting allowed."""
    by = {}
    for n in notes:
        if n[1] <= 0:
            return False
        by.setdefault((n[3] if len(n) > 3 else 0, n[2]), []).append((n[0], n[0] + n[1]))
    for iv in by.values():
        iv.sort()
        for a, b in zip(iv, iv[1:]):
            if b[0] < a[1]:
                return False
    return True


def raw_repr(s):
    """Complete raw representation of both stored views + freshness; only ever used as a
    deduplication key (strictly finer than behaviour can depend on)."""
    def raw(msgs):
        return tuple((m.message_type.value, m.time, type(m.time).__name__, m.channel, m.note, m.velocity, m.numerator,
                      m.denominator, m.key.value if m.key is not None else None, m.program, m.control) for m in msgs)
    a = None if s._abs_stale else raw(s._abs._messages)
    r = None if s._rel_stale else raw(s._rel._messages)
    return (s._abs_stale, s._rel_stale, a, r)


def internals(s):
    """ticks of INTERNAL (bar line / cap) messages of the absolute view, on a private copy"""
    c = clone(s)
    return sorted(m.time for m in c.messages_abs() if m.message_type is MT.INTERNAL)


LADDER = (33, 65, 129, 257, 513, 1025)                       # note counts of the scale families
GAPS = (769, 889, 1537, 2000, 3073, 4097, 10001, 70001)      # tick distances of the scale families (not multiples of anything)


def long_desc(n, p=60, chs=(0, 1, 9), step=5, lens=(3, 4, 5, 6)):
    """A long, structured, well-formed note list (scale family): n notes, onsets step*i, pitch p + i%5, channels
    cycling, lengths cycling; one (channel, pitch) recurs every 15 notes (75 ticks at step 5), far beyond its length.
    Velocities are distinct for n <= 126."""
    return [(step * i, lens[i % len(lens)], p + (i % 5), chs[i % len(chs)], 1 + (i * 37) % 127) for i in range(n)]
