"""Collects seeded changes from scratch worktrees into /verif/seeded/<PID>_<X>/ and confirms + checks them.
usage: python -m mc.seedbatch C05 C08 ...        (each worktree /tmp/wt_cNN with seed_A/B.patch.diff + demo_A/B.py)
"""
import json, os, shutil, subprocess, sys
V = os.path.dirname(os.path.dirname(os.path.abspath(__file__)))
ROUND = os.environ.get("SEED_ROUND", "")          # "" = round 1 (/tmp/wt_cNN), "2"/"3" = later rounds (/tmp/wt2_cNN, ...)
for pid in [a for a in sys.argv[1:] if not a.startswith("--")]:
    wt = f"/tmp/wt{ROUND}_c{pid[1:]}"
    for x in "AB":
        patch, demo = f"{wt}/seed_{x}.patch.diff", f"{wt}/demo_{x}.py"
        d = f"{V}/seeded/{pid}_{x}" if not ROUND else f"{V}/seeded/{pid}_r{ROUND}{x}"
        have = os.path.exists(f"{d}/patch.diff") and os.path.exists(f"{d}/demo.py")
        if not have and not (os.path.exists(patch) and os.path.exists(demo)):
            print(pid, x, "missing"); continue
        os.makedirs(d, exist_ok=True)
        if not os.path.exists(f"{d}/patch.diff"):      # a patch already collected may have been re-based by hand
            shutil.copy(patch, f"{d}/patch.diff")
        if not os.path.exists(f"{d}/demo.py"):
            shutil.copy(demo, f"{d}/demo.py")
        if os.path.exists(f"{d}/run.json") and "--force" not in sys.argv and "--recheck" not in sys.argv:
            print(pid, x, "already run"); continue
        recheck = "--recheck" in sys.argv and os.path.exists(f"{d}/run.json")
        old = json.load(open(f"{d}/run.json")) if recheck else {}
        recheck = recheck and "tests_with_change" in old
        r = subprocess.run([sys.executable, "-m", "mc.seedrun", f"{d}/patch.diff", f"{d}/demo.py", pid, "--seeds", "0,1"] +
                           (["--skip-tests"] if recheck else []), capture_output=True, text=True, cwd=V)
        if recheck:
            # demo and checks re-run on the current tree with the current checks; the suite result is the one recorded
            # when the change was first confirmed
            try:
                rec = json.loads(r.stdout)
                rec["tests_with_change"] = old["tests_with_change"]
                rec["suite_run"] = "when the change was first confirmed; demonstration and checks re-run on the current tree"
                r_stdout = json.dumps(rec, indent=1)
            except Exception:
                r_stdout = r.stdout
        else:
            r_stdout = r.stdout
        open(f"{d}/run.json", "w").write(r_stdout or json.dumps({"error": r.stderr[-500:]}))
        r = type("R", (), {"stdout": r_stdout, "stderr": r.stderr})()
        try:
            rec = json.loads(r.stdout)
            print(pid, x, "tests:", rec.get("tests_with_change"), "| demo with/without:", rec.get("demo_with_change_exit"),
                  rec.get("demo_without_change_exit"), "| checks:", {k: v["exit"] for k, v in rec.get("checks", {}).items()}, flush=True)
        except Exception:
            print(pid, x, "ERROR", r.stdout[-300:], r.stderr[-300:], flush=True)
